package main

// C12 — branch and metadata updates are linearizable; accepted commits stay replayable.
//
// Sub-checks (all run 2–4 real lake handles over one in-memory storage engine under an explicit
// schedule of storage operations; every run is also fed to the Lean model):
//   corpus  stored past failures
//   enum    systematic enumeration of interleavings of small fixed scenarios up to a preemption
//           budget (model validation + search; not the proof)
//   warm    sequential histories rich in refused operations (rename/create to a taken name, branch
//           conflicts, deletes of absent ids, operations on removed pools) on one or two long-lived
//           handles; after EVERY operation each handle's own view (pool list, name↔id resolution,
//           branch lists, tips, snapshots) must equal a cold handle's view and the sequential state
//   rand    random scenarios (commits, deletes, branch and pool create/rename/remove) under
//           random schedules with few preemptions
// Oracles on the real code, independent of the model: after every returned operation (and after
// every storage step in the enumeration) every branch of every pool is readable from a cold
// handle; at the end the history is linearizable against the sequential specification
// (hlib/storelin.go) and ends in the observed state: every acknowledged commit exactly once in
// its branch's chain, no lost update, names unique, failed operations invisible.

import (
	"os"
	"sync"
	"encoding/json"
	"fmt"
	"strings"
	"time"
	. "verifharness/hlib"
)

func main() { Main("C12", runC12) }

// sink serialises access to the Ctx and the model from the worker goroutines.
type sink struct {
	mu sync.Mutex
	c  *Ctx
}

func (k *sink) Fail(kind, key, what string, replay any) {
	k.mu.Lock()
	defer k.mu.Unlock()
	k.c.Fail(kind, key, what, replay)
}
func (k *sink) Stat(n string) { k.mu.Lock(); k.c.Stat(n); k.mu.Unlock() }
func (k *sink) StatN(n string, x int) {
	k.mu.Lock()
	k.c.StatN(n, x)
	k.mu.Unlock()
}
func (k *sink) Eval(key string) { k.mu.Lock(); k.c.Eval(key); k.mu.Unlock() }
func (k *sink) Sample(x any)    { k.mu.Lock(); k.c.Sample(x); k.mu.Unlock() }
func (k *sink) Compare(r *StoreRun, fill bool) (string, string) {
	k.mu.Lock()
	defer k.mu.Unlock()
	k.c.Res.ModelCases++
	if fill {
		return r.CompareWithModelMode(k.c.Model(), "C12", "runfill")
	}
	return r.CompareWithModel(k.c.Model(), "C12")
}

const c12Workers = 4

type c12Case struct {
	Clients [][]StoreOp `json:"clients"`
	Setup   int         `json:"setup"` // leading operations of client 0 that run alone first
	Sched   []int       `json:"sched"` // explicit schedule after the setup; then: continue the last client, else lowest enabled
	Note    string      `json:"note,omitempty"`
	Fill    bool        `json:"fill,omitempty"` // create-then-fill put discipline (local file engine)
}

type c12Choice struct {
	enabled  []int
	chosen   int
	commutes bool // the previously running client's next operation commutes with everything
}

type c12Result struct {
	run       *StoreRun
	choices   []c12Choice
	sched     []int // performed after setup
	completed bool  // the schedule ran to its end and the oracles on the real code passed
}

func hasDup(xs []int) bool {
	for i := range xs {
		for j := i + 1; j < len(xs); j++ {
			if xs[i] == xs[j] {
				return true
			}
		}
	}
	return false
}

func containsStr(xs []string, x string) bool {
	for _, y := range xs {
		if y == x {
			return true
		}
	}
	return false
}

func contains(xs []int, x int) bool {
	for _, y := range xs {
		if y == x {
			return true
		}
	}
	return false
}

// c12Run executes one case on the real code.  everyStep: run the readability oracle after
// every storage step (else after every returned operation).
func c12Run(c *sink, cs *c12Case, everyStep bool) (*c12Result, bool) {
	e := NewStoreEngine()
	e.Coop = true
	r, err := NewStoreRun(e, cs.Clients)
	if err != nil {
		c.Fail("harness", "C12:harness:setup", err.Error(), cs)
		return nil, false
	}
	e.Atomic = !cs.Fill
	res := &c12Result{run: r}
	failed := false
	replay := func() any {
		return &c12Case{Clients: cs.Clients, Setup: cs.Setup, Sched: append([]int(nil), res.sched...), Note: cs.Note, Fill: cs.Fill}
	}
	checkReadable := func(when string) {
		if failed {
			return
		}
		if len(e.HalfWritten()) > 0 {
			// a file is being filled right now: a reader arriving now waits for the writer
			// (readID retries); readability is checked as soon as nothing is half-written
			return
		}
		ps, err := r.Observe()
		if err != nil {
			failed = true
			c.Fail("oracle", "C12:readable:pools", fmt.Sprintf("%s: pools table unreadable from a cold handle: %v", when, err), replay())
			return
		}
		for _, p := range ps {
			if !p.Readable {
				failed = true
				c.Fail("oracle", "C12:readable:pool", fmt.Sprintf("%s: pool %s is listed but cannot be opened: %s", when, p.Name, p.Err), replay())
				return
			}
			for _, b := range p.Branches {
				if !b.Readable {
					failed = true
					key := "C12:readable:branch"
					if strings.Contains(b.Err, "delete of a non-existent data object") {
						for _, h := range r.History {
							if h.Op.Kind == "delete" && h.Res == "ok" && h.Op.Branch == b.Key && hasDup(h.Op.Objs) {
								key = "C12:readable:duplicate-delete-ids"
							}
						}
					}
					c.Fail("oracle", key, fmt.Sprintf("%s: branch %s/%s cannot be replayed: %s", when, p.Name, b.Name, b.Err), replay())
					return
				}
			}
		}
	}
	r.AfterOp = func(r *StoreRun, rec *OpRecord) {
		if rec.Res == "panic" {
			failed = true
			c.Fail("panic", "C12:panic:"+rec.Op.Kind, rec.Err, replay())
			return
		}
		if strings.HasPrefix(rec.Res, "other:") {
			failed = true
			c.Fail("oracle", "C12:error:"+rec.Op.Kind, fmt.Sprintf("client %d %s failed with an unclassified error: %s", rec.Client, rec.Op, rec.Err), replay())
			return
		}
		if !everyStep {
			checkReadable(fmt.Sprintf("after client %d %s returned %s", rec.Client, rec.Op, rec.Res))
		}
	}
	// setup
	for guard := 0; (r.NextIdx(0) < cs.Setup || (r.InFlight(0) && r.NextIdx(0) <= cs.Setup)) && r.Err == nil && guard < 100000; guard++ {
		if !r.Grant(0) {
			break
		}
	}
	nSetup := len(r.Sched)
	last := -1
	emptyReads := map[int]int{}
	step := func(cl int) {
		if cs.Fill {
			// spin breaker: a client that keeps reading a file another client is filling (readID
			// retries with growing sleeps) hands over to that writer after two empty reads
			if op, path, blocked := e.Pending(cl); blocked && op == "get" && containsStr(e.HalfWritten(), path) {
				emptyReads[cl]++
				if emptyReads[cl] > 2 {
					for k := range cs.Clients {
						if op2, p2, b2 := e.Pending(k); b2 && op2 == "write" && p2 == path {
							c.Stat("fill:spin-broken")
							cl = k
							break
						}
					}
				}
			} else {
				emptyReads[cl] = 0
			}
		}
		var en []int
		for k := range cs.Clients {
			if r.Enabled(k) {
				en = append(en, k)
			}
		}
		ch := c12Choice{enabled: en, chosen: cl}
		if last >= 0 && r.Enabled(last) {
			ch.commutes = r.NextCommutes(last)
		}
		if r.Grant(cl) {
			res.choices = append(res.choices, ch)
			res.sched = append(res.sched, cl)
			last = cl
			if everyStep {
				checkReadable(fmt.Sprintf("after storage step %d (client %d)", len(r.Sched), cl))
			}
		}
	}
	for _, cl := range cs.Sched {
		if r.Err != nil || failed {
			break
		}
		if cl < len(cs.Clients) && r.Enabled(cl) {
			step(cl)
		}
	}
	for r.Err == nil && !failed {
		cl := -1
		if last >= 0 && r.Enabled(last) {
			cl = last
		} else {
			for k := range cs.Clients {
				if r.Enabled(k) {
					cl = k
					break
				}
			}
		}
		if cl < 0 {
			break
		}
		step(cl)
		if len(r.Sched) > 20000 {
			r.Err = fmt.Errorf("schedule does not terminate")
		}
	}
	_ = nSetup
	if e.Problem != "" && r.Err == nil {
		r.Err = fmt.Errorf("%s", e.Problem)
	}
	if r.Err != nil {
		c.Fail("harness", "C12:harness:run", r.Err.Error(), replay())
		return res, false
	}
	if failed {
		return res, false
	}
	// final oracle: linearizability + final state
	obs, err := r.Observe()
	if err != nil {
		c.Fail("oracle", "C12:readable:pools", "final pools table unreadable: "+err.Error(), replay())
		return res, false
	}
	pl, cm := r.StoreIDStrings()
	if why := StoreChainOracle(r.History, obs, pl); why != "" {
		c.Fail("oracle", "C12:chain:exactly-once", why, replay())
		return res, false
	}
	if StoreSpecable(cs.Clients) {
		why, unjust := StoreLinearizable(r.History, obs, pl, cm)
		if why != "" && os.Getenv("C12_DEBUG") != "" {
			for _, h := range r.History {
				fmt.Fprintf(os.Stderr, "%+v\n", *h)
			}
			fmt.Fprintf(os.Stderr, "%+v\n", obs)
			for _, l := range r.RenderTrace() {
				fmt.Fprintln(os.Stderr, l)
			}
		}
		if why != "" {
			key := "C12:lin:" + c12LinClass(why)
			if StoreLinearizableModuloRemovedPool(r.History, obs, pl, cm) {
				key = "C12:lin:commit-into-removed-pool"
			}
			c.Fail("oracle", key, "history is not linearizable: "+why, replay())
			return res, false
		}
		if unjust != "" {
			c.Stat("lin:failure-class-not-sequential")
		}
	} else {
		c.Stat("runs-with-merge/delete-where/vector-add(chain+readability+warm oracles)")
	}
	res.completed = true
	if !StoreOpsModelled(cs.Clients) {
		for k := range cs.Clients {
			if d := r.CompareHandleWithCold(k); d != "" {
				c.Fail("oracle", "C12:warm:final", d, replay())
				return res, false
			}
		}
		return res, true
	}
	// correspondence with the model
	if diff, req := c.Compare(r, cs.Fill); diff != "" {
		c.Fail("correspondence", "C12:model:"+strings.SplitN(diff, "[", 2)[0], "model and code disagree: "+diff, map[string]any{"case": replay(), "model_request": req})
		return res, false
	}
	// every long-lived handle must see the same lake as a cold one (after the trace was compared:
	// these reads are not part of the schedule)
	for k := range cs.Clients {
		if d := r.CompareHandleWithCold(k); d != "" {
			c.Fail("oracle", "C12:warm:final", d, replay())
			return res, false
		}
	}
	return res, true
}

// ---- warm: long-lived handles, sequential histories rich in refused operations -----------

type c12WarmCase struct {
	Warm    bool        `json:"warm"`
	Clients [][]StoreOp `json:"clients"`
	Order   []int       `json:"order"` // which handle issues its next operation
}

// c12WarmRun runs the operations one at a time (no overlap).  After every operation — in
// particular after every operation that reports failure — every handle's own view (pool list,
// name → id and id → name resolution, branch lists, tips, snapshots) must equal the view of a
// cold handle and the sequential specification, and the handle must be consistent with itself.
func c12WarmRun(c *sink, cs *c12WarmCase) {
	e := NewStoreEngine()
	r, err := NewStoreRun(e, cs.Clients)
	if err != nil {
		c.Fail("harness", "C12:harness:setup", err.Error(), cs)
		return
	}
	spec := NewStoreSpec()
	for step, cl := range cs.Order {
		if cl >= len(cs.Clients) {
			continue
		}
		rec := r.RunOne(cl)
		if rec == nil {
			continue
		}
		c.Stat("warm:result:" + rec.Op.Kind + ":" + strings.SplitN(rec.Res, ":", 2)[0])
		when := fmt.Sprintf("step %d: after handle %d %s returned %s", step, cl, rec.Op, rec.Res)
		if rec.Res == "panic" {
			c.Fail("panic", "C12:panic:"+rec.Op.Kind, rec.Err, cs)
			return
		}
		if !spec.Apply(rec) {
			c.Fail("oracle", "C12:warm:result:"+rec.Op.Kind+":"+strings.SplitN(rec.Res, ":", 2)[0],
				fmt.Sprintf("%s (%s), which a sequential execution cannot give here", when, rec.Err), cs)
			return
		}
		pl, cm := r.StoreIDStrings()
		cold, err := r.Observe()
		if err != nil {
			c.Fail("oracle", "C12:readable:pools", when+": cold handle cannot list the lake: "+err.Error(), cs)
			return
		}
		if ok, why := spec.Matches(cold, pl, cm, true); !ok {
			key := "C12:warm:cold-state"
			if rec.Res != "ok" {
				key = "C12:warm:failed-op-visible"
			}
			c.Fail("oracle", key, when+": stored state differs from the sequential state: "+why, cs)
			return
		}
		for k := range cs.Clients {
			if d := r.CompareHandleWithCold(k); d != "" {
				key := "C12:warm:handle-state"
				if rec.Res != "ok" {
					key = "C12:warm:handle-state-after-failure"
				}
				c.Fail("oracle", key, when+": "+d, cs)
				return
			}
		}
	}
}

func c12WarmCaseGen(c *Ctx) *c12WarmCase {
	r := c.Rng
	nh := 1 + r.Intn(2)
	ops := make([][]StoreOp, nh)
	var order []int
	lbl, obj, clbl := 3, 1, 100
	add := func(h int, o StoreOp) {
		ops[h] = append(ops[h], o)
		order = append(order, h)
	}
	// handle 0 is the long-lived one; it creates two pools first
	add(0, createPool(1, 1))
	add(0, createPool(2, 2))
	livePools := []int{1, 2}
	pick := func() int { return livePools[r.Intn(len(livePools))] }
	objsOf := map[int][]int{}    // pool label -> objects loaded into its main branch
	commitsOf := map[int][]int{} // pool label -> commit labels issued on it (a branch may only start at a commit of its pool)
	parentIn := func(p int) int {
		if l := commitsOf[p]; len(l) > 0 && r.Intn(3) > 0 {
			return l[r.Intn(len(l))]
		}
		return 0
	}
	n := 8 + r.Intn(10)
	for i := 0; i < n; i++ {
		h := 0
		if nh > 1 && r.Intn(4) == 0 {
			h = 1
		}
		p := pick()
		switch x := r.Intn(24); {
		case x < 4: // rename, often to a taken name
			add(h, renamePool(p, 1+r.Intn(4)))
		case x < 6: // refused rename followed by drop by id on the same handle
			add(h, renamePool(p, 1+r.Intn(2)))
			add(h, removePool(p))
		case x < 10: // create, often with a taken name
			add(h, createPool(lbl, 1+r.Intn(4)))
			livePools = append(livePools, lbl)
			lbl++
		case x < 11:
			add(h, removePool(p))
		case x < 14:
			br := 0
			if r.Intn(4) == 0 {
				br = 1
			}
			add(h, load(p, br, obj, clbl))
			commitsOf[p] = append(commitsOf[p], clbl)
			if br == 0 {
				objsOf[p] = append(objsOf[p], obj)
			}
			obj++
			clbl++
		case x < 16:
			add(h, createBranch(p, 1+r.Intn(2), 0))
		case x < 18:
			add(h, removeBranch(p, 1+r.Intn(2)))
		case x < 20: // delete: present, absent or repeated ids
			o := 1 + r.Intn(obj)
			br := r.Intn(2)
			if l := objsOf[p]; len(l) > 0 && r.Intn(4) > 0 {
				o, br = l[r.Intn(len(l))], 0
			}
			add(h, del(p, br, clbl, o))
			commitsOf[p] = append(commitsOf[p], clbl)
			clbl++
		case x < 22:
			add(h, del(p, 0, clbl, 1+r.Intn(obj), 1+r.Intn(obj)))
			clbl++
		default:
			add(h, createBranch(p, 1+r.Intn(2), parentIn(p)))
		}
	}
	return &c12WarmCase{Warm: true, Clients: ops, Order: order}
}

func c12LinClass(why string) string {
	switch {
	case strings.Contains(why, "chain"):
		return "chain"
	case strings.Contains(why, "object"):
		return "objects"
	case strings.Contains(why, "unreadable"):
		return "unreadable"
	case strings.Contains(why, "pool"):
		return "pools"
	case strings.Contains(why, "branch"):
		return "branches"
	case strings.Contains(why, "returned"):
		return "result"
	}
	return "other"
}

func c12Stats(c *sink, cs *c12Case, res *c12Result) {
	kinds := map[string]bool{}
	for _, ops := range cs.Clients {
		for _, o := range ops {
			kinds[o.Kind] = true
		}
	}
	for k := range kinds {
		c.Stat("scenario-with:" + k)
	}
	c.Stat(fmt.Sprintf("clients:%d", len(cs.Clients)))
	if res == nil || res.run == nil {
		return
	}
	for _, h := range res.run.History {
		c.Stat("result:" + h.Op.Kind + ":" + strings.SplitN(h.Res, ":", 2)[0])
	}
	for k := range res.run.TraceCounts() {
		c.Stat("runs-with:" + k)
	}
	sw := 0
	for i := 1; i < len(res.sched); i++ {
		if res.sched[i] != res.sched[i-1] {
			sw++
		}
	}
	switch {
	case sw <= 2:
		c.Stat("switches:0-2")
	case sw <= 5:
		c.Stat("switches:3-5")
	default:
		c.Stat("switches:6+")
	}
	n := len(res.sched)
	switch {
	case n < 40:
		c.Stat("steps:<40")
	case n < 80:
		c.Stat("steps:40-79")
	default:
		c.Stat("steps:80+")
	}
}

func c12Key(cs *c12Case, sched []int) string {
	b, _ := json.Marshal(cs.Clients)
	return fmt.Sprintf("%s|%d|%v", b, cs.Setup, sched)
}

// c12Enumerate explores all interleavings of the case up to `bound` preemptions (a
// preemption = switching away from a client that could continue, before an operation that
// does not commute), at most maxRuns runs.
func c12Enumerate(c *sink, base *c12Case, bound, maxRuns int, everyStep bool, deadline time.Time) int {
	type item struct {
		prefix []int
		pre    int
	}
	stack := []item{{nil, 0}}
	runs := 0
	for len(stack) > 0 && runs < maxRuns && time.Now().Before(deadline) {
		it := stack[len(stack)-1]
		stack = stack[:len(stack)-1]
		cs := &c12Case{Clients: base.Clients, Setup: base.Setup, Sched: it.prefix, Note: base.Note, Fill: base.Fill}
		res, ok := c12Run(c, cs, everyStep)
		runs++
		if res != nil {
			c.Eval(c12Key(cs, res.sched))
			c12Stats(c, cs, res)
			c.Stat(fmt.Sprintf("enum:preemptions:%d", it.pre))
		}
		if res == nil || !(ok || res.completed) {
			continue
		}
		// count preemptions along the run and branch (also when only the model disagreed: the
		// search for a failing input on the real code goes on)
		pre := 0
		for i, ch := range res.choices {
			prevEnabled := i > 0 && contains(ch.enabled, res.choices[i-1].chosen)
			if i >= len(it.prefix) {
				for _, alt := range ch.enabled {
					if alt == ch.chosen {
						continue
					}
					cost := 0
					if prevEnabled && alt != res.choices[i-1].chosen {
						if ch.commutes {
							continue // delaying a commuting read is not a new interleaving
						}
						cost = 1
					}
					if pre+cost <= bound {
						np := append(append([]int(nil), res.sched[:i]...), alt)
						stack = append(stack, item{np, pre + cost})
					}
				}
			}
			if prevEnabled && ch.chosen != res.choices[i-1].chosen {
				pre++
			}
		}
	}
	return runs
}

// ---- scenarios ---------------------------------------------------------------------------

func load(pool, branch, obj, lbl int) StoreOp {
	return StoreOp{Kind: "load", Pool: pool, Branch: branch, Obj: obj, Lbl: lbl}
}
func del(pool, branch, lbl int, objs ...int) StoreOp {
	return StoreOp{Kind: "delete", Pool: pool, Branch: branch, Objs: objs, Lbl: lbl}
}
func compact(pool, branch, lbl, newObj int, objs ...int) StoreOp {
	return StoreOp{Kind: "compact", Pool: pool, Branch: branch, Lbl: lbl, Obj: newObj, Objs: objs}
}
func revert(pool, branch, lbl, commit int) StoreOp {
	return StoreOp{Kind: "revert", Pool: pool, Branch: branch, Lbl: lbl, Parent: commit}
}
func merge(pool, child, parent, lbl int) StoreOp {
	return StoreOp{Kind: "merge", Pool: pool, Branch: child, Name: parent, Lbl: lbl}
}
func delWhere(pool, branch, lbl, key int) StoreOp {
	return StoreOp{Kind: "deleteWhere", Pool: pool, Branch: branch, Lbl: lbl, Obj: key}
}
func addVec(pool, branch, lbl int, objs ...int) StoreOp {
	return StoreOp{Kind: "addVectors", Pool: pool, Branch: branch, Lbl: lbl, Objs: objs}
}
func createPool(lbl, name int) StoreOp { return StoreOp{Kind: "createPool", Lbl: lbl, Name: name} }
func renamePool(pool, name int) StoreOp {
	return StoreOp{Kind: "renamePool", Pool: pool, Name: name}
}
func removePool(pool int) StoreOp { return StoreOp{Kind: "removePool", Pool: pool} }
func createBranch(pool, name, parent int) StoreOp {
	return StoreOp{Kind: "createBranch", Pool: pool, Name: name, Parent: parent}
}
func removeBranch(pool, name int) StoreOp {
	return StoreOp{Kind: "removeBranch", Pool: pool, Name: name}
}

// Fixed small scenarios for the systematic enumeration.  Client 0 runs `Setup` operations
// alone first (pool 1 named q1, objects 1 and 2 on main).
func c12Fixed() []*c12Case {
	setup := []StoreOp{createPool(1, 1), load(1, 0, 1, 101), load(1, 0, 2, 102)}
	mk := func(note string, c0 []StoreOp, rest ...[]StoreOp) *c12Case {
		cl := [][]StoreOp{append(append([]StoreOp(nil), setup...), c0...)}
		cl = append(cl, rest...)
		return &c12Case{Clients: cl, Setup: len(setup), Note: note}
	}
	return []*c12Case{
		mk("two loads on main", []StoreOp{load(1, 0, 3, 103)}, []StoreOp{load(1, 0, 4, 104)}),
		mk("load vs delete; two deletes of one object", []StoreOp{del(1, 0, 103, 1)}, []StoreOp{del(1, 0, 104, 1)}),
		mk("load vs delete of another object", []StoreOp{load(1, 0, 3, 103)}, []StoreOp{del(1, 0, 104, 2)}),
		mk("two pools of one name", []StoreOp{createPool(2, 2)}, []StoreOp{createPool(3, 2)}),
		mk("create vs rename to one name", []StoreOp{createPool(2, 2)}, []StoreOp{renamePool(1, 2)}),
		mk("two branches of one name", []StoreOp{createBranch(1, 1, 101)}, []StoreOp{createBranch(1, 1, 102)}),
		mk("load vs remove of its branch", []StoreOp{createBranch(1, 1, 101), load(1, 1, 3, 103)}, []StoreOp{removeBranch(1, 1)}),
		mk("load vs remove of its pool", []StoreOp{load(1, 0, 3, 103)}, []StoreOp{removePool(1)}),
		mk("rename vs remove", []StoreOp{renamePool(1, 2)}, []StoreOp{removePool(1)}),
		mk("three loads", []StoreOp{load(1, 0, 3, 103)}, []StoreOp{load(1, 0, 4, 104)}, []StoreOp{load(1, 0, 5, 105)}),
		mk("two deletes of one object vs remove of the pool", []StoreOp{del(1, 0, 103, 1)}, []StoreOp{del(1, 0, 104, 1)}, []StoreOp{removePool(1)}),
		mk("compact vs delete of a source object", []StoreOp{compact(1, 0, 103, 3, 1, 2)}, []StoreOp{del(1, 0, 104, 1)}),
		mk("revert vs load", []StoreOp{revert(1, 0, 103, 102)}, []StoreOp{load(1, 0, 3, 104)}),
		mk("merge into main vs load on main", []StoreOp{createBranch(1, 1, 101), load(1, 1, 3, 103), merge(1, 1, 0, 104)}, []StoreOp{load(1, 0, 4, 105)}),
		mk("delete-where vs load; vector add vs delete", []StoreOp{delWhere(1, 0, 103, 1), addVec(1, 0, 105, 2)}, []StoreOp{load(1, 0, 3, 104), del(1, 0, 106, 2)}),
		mk("two loads each", []StoreOp{load(1, 0, 3, 103), load(1, 0, 5, 105)}, []StoreOp{load(1, 0, 4, 104), del(1, 0, 106, 4)}),
	}
}

func c12Random(c *Ctx) *c12Case {
	r := c.Rng
	setup := []StoreOp{createPool(1, 1), load(1, 0, 1, 101), load(1, 0, 2, 102)}
	if r.Intn(3) == 0 {
		setup = append(setup, createBranch(1, 1, 101))
	}
	if r.Intn(4) == 0 {
		setup = append(setup, createPool(2, 2))
	}
	// a longer branches journal now and then, so that journal snapshots (> 10 entries) occur
	if r.Intn(6) == 0 {
		for i := 0; i < 8; i++ {
			setup = append(setup, load(1, 0, 50+i, 150+i))
		}
	}
	nclients := 2 + r.Intn(3)
	extra := r.Intn(3) == 0 // also merge / delete-where / vector add (not modelled: oracles only)
	nextObj, nextLbl := 3, 103
	var clients [][]StoreOp
	for k := 0; k < nclients; k++ {
		var ops []StoreOp
		nops := 1 + r.Intn(3)
		if nclients >= 4 {
			nops = 1 + r.Intn(2)
		}
		var own []int
		for i := 0; i < nops; i++ {
			branch := 0
			if r.Intn(4) == 0 {
				branch = 1
			}
			switch x := r.Intn(20); {
			case x < 8:
				ops = append(ops, load(1, branch, nextObj, nextLbl))
				own = append(own, nextObj)
				nextObj++
				nextLbl++
			case x < 12:
				objs := []int{1 + r.Intn(2)}
				if len(own) > 0 && r.Intn(2) == 0 {
					objs = []int{own[r.Intn(len(own))]}
				}
				if r.Intn(5) == 0 {
					// a second object; the same id twice only rarely (that is the known
					// defect C12:readable:duplicate-delete-ids and ends the run)
					o2 := 3 - objs[0]
					if o2 < 1 || o2 > 2 {
						o2 = 1 + r.Intn(2)
					}
					if r.Intn(8) == 0 {
						o2 = objs[0]
					}
					objs = append(objs, o2)
				}
				ops = append(ops, del(1, branch, nextLbl, objs...))
				nextLbl++
			case x < 14:
				ops = append(ops, createBranch(1, 1+r.Intn(2), []int{0, 101, 102}[r.Intn(3)]))
			case x < 15:
				ops = append(ops, removeBranch(1, 1+r.Intn(2)))
			case x < 17:
				ops = append(ops, createPool(10+k*4+i, 1+r.Intn(3)))
			case x < 18:
				ops = append(ops, renamePool(1+r.Intn(2), 1+r.Intn(3)))
			case x < 19:
				ops = append(ops, removePool(1+r.Intn(2)))
			default:
				ops = append(ops, load(2, 0, nextObj, nextLbl))
				nextObj++
				nextLbl++
			}
			// the commit operations beyond load / delete
			switch y := r.Intn(24); {
			case y == 0:
				ops = append(ops, compact(1, 0, nextLbl, nextObj, 1, 2))
				nextObj++
				nextLbl++
			case y == 1:
				ops = append(ops, revert(1, 0, nextLbl, []int{101, 102}[r.Intn(2)]))
				nextLbl++
			case y == 2 && extra:
				ops = append(ops, merge(1, 1, 0, nextLbl))
				nextLbl++
			case y == 3 && extra:
				ops = append(ops, delWhere(1, branch, nextLbl, 1+r.Intn(2)))
				nextLbl++
			case y == 4 && extra:
				ops = append(ops, addVec(1, 0, nextLbl, 1+r.Intn(2)))
				nextLbl++
			}
		}
		clients = append(clients, ops)
	}
	clients[0] = append(setup, clients[0]...)
	cs := &c12Case{Clients: clients, Setup: len(setup)}
	// random schedule: bursts
	n := 0
	for n < 400 {
		cl := r.Intn(nclients)
		burst := 1 + r.Intn(12)
		if r.Intn(3) == 0 {
			burst = 1 + r.Intn(60)
		}
		for i := 0; i < burst; i++ {
			cs.Sched = append(cs.Sched, cl)
		}
		n += burst
	}
	return cs
}

func runC12(c0 *Ctx) {
	c := &sink{c: c0}
	c0.Rule("2–4 real lake handles over one in-memory storage.Engine with a cooperative scheduler; a case = per-client lists of 1–3 API operations (load, delete, branch create/remove, pool create/rename/remove) after a sequential setup + a schedule of storage operations; enum: all interleavings of 16 fixed conflict scenarios (incl. compact, revert, merge, delete-where, vector add) up to a preemption budget (preemptions before reads of immutable files are skipped); rand: random scenarios under random burst schedules; distinct = distinct (scenario, performed schedule); non-trivial = at least two clients overlap")
	if c0.Replay != nil {
		var wc c12WarmCase
		if json.Unmarshal(c0.Replay, &wc) == nil && wc.Warm {
			c12WarmRun(c, &wc)
			c.Eval("warm-replay")
			return
		}
		var cs c12Case
		if err := json.Unmarshal(c0.Replay, &cs); err != nil || len(cs.Clients) == 0 {
			var w struct {
				Case c12Case `json:"case"`
			}
			if json.Unmarshal(c0.Replay, &w) == nil && len(w.Case.Clients) > 0 {
				cs = w.Case
			} else {
				c.Fail("harness", "C12:harness:replay", "cannot parse replay", nil)
				return
			}
		}
		res, _ := c12Run(c, &cs, true)
		c.Eval(c12Key(&cs, cs.Sched))
		c12Stats(c, &cs, res)
		return
	}
	for _, raw := range c0.CorpusCases() {
		var wc c12WarmCase
		if json.Unmarshal(raw, &wc) == nil && wc.Warm {
			c12WarmRun(c, &wc)
			c.Eval("warm-corpus")
			c.Stat("corpus")
			continue
		}
		var cs c12Case
		if json.Unmarshal(raw, &cs) == nil && len(cs.Clients) > 0 {
			res, _ := c12Run(c, &cs, true)
			c.Eval(c12Key(&cs, cs.Sched))
			c12Stats(c, &cs, res)
			c.Stat("corpus")
		}
	}
	if c0.Want("warm") {
		n := c0.N(60, 1500)
		deadline := time.Now().Add(time.Duration(c0.N(15, 240)) * time.Second)
		cases := make([]*c12WarmCase, n)
		for i := range cases {
			cases[i] = c12WarmCaseGen(c0)
		}
		ParallelDo(n, c12Workers, func(i int) {
			if !time.Now().Before(deadline) {
				c.Stat("warm:skipped-deadline")
				return
			}
			c12WarmRun(c, cases[i])
			b, _ := json.Marshal(cases[i])
			c.Eval(string(b))
			c.Stat("warm:runs")
		})
	}
	if c0.Want("enum") {
		fixed := c12Fixed()
		deadline := time.Now().Add(time.Duration(c0.N(25, 420)) * time.Second)
		bound, perScenario := c0.N(1, 2), c0.N(45, 6000)
		everyStep := os.Getenv("C12_EVERY") != "0"
		ParallelDo(len(fixed), c12Workers, func(i int) {
			cs := fixed[i]
			n := c12Enumerate(c, cs, bound, perScenario, everyStep, deadline)
			c.StatN("enum:runs", n)
			c.Sample(map[string]any{"enum": cs.Note, "runs": n})
		})
	}
	if c0.Want("fill") {
		// create-then-fill puts: exclusive create / truncate, then the content; readers may see
		// the empty file.  Preemptions between the two halves of every put are enumerated.
		fixed := c12Fixed()
		var sel []*c12Case
		for _, i := range []int{0, 1, 2, 3, 5, 9} {
			f := *fixed[i]
			f.Fill = true
			f.Note = "fill: " + f.Note
			sel = append(sel, &f)
		}
		deadline := time.Now().Add(time.Duration(c0.N(20, 300)) * time.Second)
		bound, perScenario := c0.N(1, 2), c0.N(35, 4000)
		ParallelDo(len(sel), c12Workers, func(i int) {
			n := c12Enumerate(c, sel[i], bound, perScenario, true, deadline)
			c.StatN("fill:runs", n)
		})
	}
	if c0.Want("rand") {
		n := c0.N(150, 8000)
		deadline := time.Now().Add(time.Duration(c0.N(20, 360)) * time.Second)
		cases := make([]*c12Case, n)
		for i := range cases {
			cases[i] = c12Random(c0)
		}
		ParallelDo(n, c12Workers, func(i int) {
			if !time.Now().Before(deadline) {
				c.Stat("rand:skipped-deadline")
				return
			}
			cs := cases[i]
			res, _ := c12Run(c, cs, i%4 == 0)
			if res != nil {
				c.Eval(c12Key(cs, res.sched))
				c12Stats(c, cs, res)
				c.Stat("rand:runs")
				if i < 2 {
					c.Sample(map[string]any{"clients": cs.Clients, "sched_len": len(res.sched)})
				}
			}
		})
	}
}
