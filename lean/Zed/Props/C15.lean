/-
  C15 — merge and revert have exact, conflict-safe semantics.
  Property theorems only (model: Zed/Model/LakePatch.lean, LakeOps.lean — `Patch`, `Diff`,
  `Revert` exactly as coded; lemmas: Zed/Proofs/Lake*.lean).
-/
import Zed.Proofs.LakeSnap
namespace Zed.Props.C15
open Zed.Lake

variable {K V : Type} [DecidableEq V]

/-- **merge_conflict_untouched / failed operations are invisible.**  An operation that returns
    an error — a merge conflict, an empty difference, a missing common ancestor, an empty
    revert, an unknown commit, … — leaves the whole pool state (commit store, data objects,
    every branch pointer) exactly as it was. -/
theorem merge_conflict_untouched (cfg : Cfg K V) (s : State K V) (op : Op V) (e : Err)
    (h : apply cfg s op = .error e) : step cfg s op = s := by
  unfold step; rw [h]

/-! ### the 4-step witness: both sides delete the same object -/

/-- two loads on main (commits 1, 2), branch `1` created at commit 2, `delete [1]` on the
    branch (commit 3) and on main (commit 4) -/
def commonDelete : State Nat Nat :=
  { commits := [{ parent := 0, acts := [.add { id := 1, min := 1, max := 1, count := 1 }] },
                { parent := 1, acts := [.add { id := 2, min := 2, max := 2, count := 1 }] },
                { parent := 2, acts := [.del 1] },
                { parent := 2, acts := [.del 1] }],
    branches := [(0, 4), (1, 3)], files := [(1, [1]), (2, [2])], nextObj := 3 }

/-- both branches are readable before the merge -/
example : (snapAt commonDelete.commits 4).toBool = true ∧ (snapAt commonDelete.commits 3).toBool = true :=
  ⟨rfl, rfl⟩

/-- **not_merge_result_replayable.**  The full statement `merge_result_replayable` ("the commit
    object a successful merge emits replays on the parent tip") is FALSE of the current code:
    in `commonDelete` the merge of branch 1 into main is acknowledged, main's new tip is commit
    5, and commit 5 cannot be replayed (`delete of a non-existent data object`) — main is
    unreadable from then on.  Cause: `Patch.Lookup` consults the base snapshot without
    subtracting `deletedObjects`, so `Diff` finds the object "present" in the parent and emits a
    second `Delete`.  Replayed on the real code by the harness (witness:common-delete). -/
theorem not_merge_result_replayable :
    ∃ s', merge commonDelete 1 0 = .ok s' ∧ s'.tip 0 = some 5 ∧
      snapAt s'.commits 5 = .error .noObject := ⟨_, rfl, rfl, rfl⟩

/-- the same child merged twice: the first merge is fine, the second one re-emits the child's
    delete and leaves main unreadable (witness:repeated-merge). -/
def repeatedMerge : State Nat Nat :=
  { commits := [{ parent := 0, acts := [.add { id := 1, min := 1, max := 1, count := 1 }] },
                { parent := 1, acts := [.add { id := 2, min := 2, max := 2, count := 1 }] },
                { parent := 2, acts := [.del 1] }],
    branches := [(0, 2), (1, 3)], files := [(1, [1]), (2, [2])], nextObj := 3 }

theorem not_repeated_merge_replayable :
    ∃ s1 s2 snap, merge repeatedMerge 1 0 = .ok s1 ∧ snapAt s1.commits 4 = .ok snap ∧
      snap.ids = [2] ∧ merge s1 1 0 = .ok s2 ∧ s2.tip 0 = some 5 ∧
      snapAt s2.commits 5 = .error .noObject := ⟨_, _, _, rfl, rfl, rfl, rfl, rfl, rfl⟩

end Zed.Props.C15
