import Zed.Proofs.TypeValueRT
namespace Zed
open Zcode List Generated.C05
namespace Ctx

/-- result shape shared by the total forms below -/
def Good (c : Ctx) (r : Option Ty × Ctx) : Prop :=
  r.2.Inv ∧ (∀ u, c.has u → r.2.has u) ∧ ∀ t, r.1 = some t → r.2.has t

theorem lookupRecord_good (c : Ctx) (hc : c.Inv) (fs : List (Name × Ty))
    (ht : ∀ p ∈ fs, nameOk p.1 = true ∧ c.has p.2) (hl : fs.length ≤ maxRecordFields) :
    Good c (c.lookupRecord fs) := by
  cases hlk : c.toType.lookup (encodeTV (Ty.record (Fields.ofList fs))) with
  | some t' =>
    rw [lookupRecord_hit c fs t' hlk]
    exact ⟨hc, fun u h => h, fun t e => by cases e; exact hc.range _ _ hlk⟩
  | none =>
    by_cases hd : hasDup (fs.map (·.1)) = true
    · have : c.lookupRecord fs = (none, c) := by simp only [lookupRecord, hlk, hd]; simp
      rw [this]; exact ⟨hc, fun u h => h, fun t e => by cases e⟩
    · have sp := lookupRecord_spec c hc fs ht hl (by simpa using hd)
      exact ⟨sp.2.1, sp.2.2.2.1, fun t e => by rw [sp.1] at e; cases e; exact sp.2.2.2.2⟩

theorem lookupNamed_good (c : Ctx) (hc : c.Inv) (n : Name) (t : Ty) (hn2 : nameOk n = true) (ht : c.has t) :
    Good c (c.lookupNamed n t) := by
  by_cases hn : validTypeName n = true
  · have sp := lookupNamed_spec c hc n t hn hn2 ht
    exact ⟨sp.2.1, sp.2.2.2.1, fun u e => by rw [sp.1] at e; cases e; exact sp.2.2.2.2⟩
  · have : c.lookupNamed n t = (none, c) := by
      simp only [lookupNamed]; simp [hn]
    rw [this]; exact ⟨hc, fun u h => h, fun t e => by cases e⟩

theorem primitiveByID?_good : ∀ id, id < 30 →
    (match primitiveByID? id with
     | some t => t.wf && !t.isComplex
     | none => true) = true := by decide

theorem primitiveByID?_has (c : Ctx) (id : Nat) (t : Ty) (h : primitiveByID? id = some t) : c.has t := by
  have hlt : id < 30 := by
    unfold primitiveByID? at h
    split at h
    · rename_i hl; simpa [idTypeComplex] using hl
    · simp at h
  have := primitiveByID?_good id hlt
  rw [h] at this
  simp only [Bool.and_eq_true, Bool.not_eq_true'] at this
  exact ⟨this.1, Or.inr this.2⟩

theorem decodeName_nameOk {bs : Bytes} {n : Name} {rest : Bytes} (h : decodeName bs = some (n, rest)) :
    nameOk n = true := by
  unfold decodeName at h
  cases hd : decodeLength bs with
  | none => simp [hd] at h
  | some p =>
    obtain ⟨k, r⟩ := p
    simp only [hd] at h
    split at h
    · simp only [Option.some.injEq, Prod.mk.injEq] at h
      have hk : k < 2 ^ 63 := by
        unfold decodeLength at hd
        cases hr : readUvarint bs with
        | none => simp [hr] at hd
        | some q =>
          simp only [hr] at hd
          split at hd
          · simp only [Option.some.injEq, Prod.mk.injEq] at hd; omega
          · simp at hd
      rw [← h.1]
      simp only [nameOk, length_take, decide_eq_true_eq]
      omega
    · simp at h

theorem decodeSyms_ok : (n : Nat) → (bs : Bytes) → (syms : List Name) → (rest : Bytes) →
    decodeSyms n bs = some (syms, rest) → syms.length = n ∧ syms.all nameOk = true
  | 0, bs, syms, rest, h => by simp [decodeSyms] at h; simp [h.1]
  | n+1, bs, syms, rest, h => by
    simp only [decodeSyms] at h
    cases hd : decodeName bs with
    | none => simp [hd] at h
    | some p =>
      obtain ⟨s, tv⟩ := p
      simp only [hd] at h
      cases hs : decodeSyms n tv with
      | none => simp [hs] at h
      | some q =>
        obtain ⟨ss, tv2⟩ := q
        simp only [hs, Option.some.injEq, Prod.mk.injEq] at h
        have := decodeSyms_ok n tv ss tv2 hs
        rw [← h.1]
        simp [this.1, this.2, decodeName_nameOk hd]

end Ctx
end Zed
namespace Zed
open Zcode List Generated.C05
namespace Ctx

theorem byte_eq_byteOf (b : UInt8) (k : Nat) (h : b.toNat = k) : b = byteOf k := by
  subst h; simp [byteOf]

theorem decodeTV_other (f : Nat) (c : Ctx) (b : UInt8) (tv : Bytes)
    (h1 : b.toNat ≠ tvNameDef) (h2 : b.toNat ≠ tvNameRef) (h3 : b.toNat ≠ tvRecord) (h4 : b.toNat ≠ tvArray)
    (h5 : b.toNat ≠ tvSet) (h6 : b.toNat ≠ tvMap) (h7 : b.toNat ≠ tvUnion) (h8 : b.toNat ≠ tvEnum)
    (h9 : b.toNat ≠ tvError) :
    decodeTV (f + 1) c (b :: tv) =
      match primitiveByID? b.toNat with
      | none => (c, none)
      | some t => (c, some (t, tv)) := by
  rw [decodeTV]
  simp only [h1, h2, h3, h4, h5, h6, h7, h8, h9, if_false]
  rfl

/-- what a decoder call guarantees, whatever the bytes -/
def DGood (c : Ctx) (r : Ctx × Option (Ty × Bytes)) : Prop :=
  r.1.Inv ∧ (∀ u, c.has u → r.1.has u) ∧ ∀ t rest, r.2 = some (t, rest) → r.1.has t

def DGoodF (c : Ctx) (n : Nat) (r : Ctx × Option (List (Name × Ty) × Bytes)) : Prop :=
  r.1.Inv ∧ (∀ u, c.has u → r.1.has u) ∧
    ∀ fs rest, r.2 = some (fs, rest) → fs.length = n ∧ ∀ p ∈ fs, nameOk p.1 = true ∧ r.1.has p.2

def DGoodT (c : Ctx) (n : Nat) (r : Ctx × Option (List Ty × Bytes)) : Prop :=
  r.1.Inv ∧ (∀ u, c.has u → r.1.has u) ∧
    ∀ ts rest, r.2 = some (ts, rest) → ts.length = n ∧ ∀ t ∈ ts, r.1.has t

theorem DGood_fail (c : Ctx) (hc : c.Inv) : DGood c (c, none) := ⟨hc, fun _ h => h, fun _ _ e => by cases e⟩

/-- a unary wrapper step (array / set / error) -/
theorem DGood_wrap (c : Ctx) (r : Ctx × Option (Ty × Bytes)) (hr : DGood c r)
    (look : Ctx → Ty → Ty × Ctx)
    (hlook : ∀ c1 : Ctx, c1.Inv → ∀ t, c1.has t → (look c1 t).2.Inv ∧ (∀ u, c1.has u → (look c1 t).2.has u) ∧
      (look c1 t).2.has (look c1 t).1) :
    DGood c (match r with
      | (c1, none) => (c1, none)
      | (c1, some (t, tv)) => ((look c1 t).2, some ((look c1 t).1, tv))) := by
  obtain ⟨c1, o⟩ := r
  cases o with
  | none => exact ⟨hr.1, hr.2.1, fun _ _ e => by cases e⟩
  | some p =>
    obtain ⟨t, tv⟩ := p
    have ht := hr.2.2 t tv rfl
    have sp := hlook c1 hr.1 t ht
    exact ⟨sp.1, fun u h => sp.2.1 u (hr.2.1 u h), fun t' rest e => by cases e; exact sp.2.2⟩

end Ctx
end Zed
namespace Zed
open Zcode List Generated.C05
namespace Ctx

mutual
theorem dec_inv : (f : Nat) → (c : Ctx) → (bs : Bytes) → c.Inv → DGood c (decodeTV f c bs)
  | 0, c, bs, hc => by rw [decodeTV]; exact DGood_fail c hc
  | f+1, c, [], hc => by
    have e : decodeTV (f + 1) c [] = (c, none) := by simp [decodeTV]
    rw [e]; exact DGood_fail c hc
  | f+1, c, b :: tv, hc => by
    by_cases h1 : b.toNat = tvNameDef
    · rw [byte_eq_byteOf b _ h1, decodeTV_namedef]
      cases hn : decodeName tv with
      | none => exact DGood_fail c hc
      | some p =>
        obtain ⟨name, tv1⟩ := p
        simp only
        have ih := dec_inv f c tv1 hc
        cases hd : decodeTV f c tv1 with
        | mk c1 o =>
          rw [hd] at ih
          cases o with
          | none => exact ⟨ih.1, ih.2.1, fun _ _ e => by cases e⟩
          | some q =>
            obtain ⟨t, tv2⟩ := q
            simp only
            have g := lookupNamed_good c1 ih.1 name t (decodeName_nameOk hn) (ih.2.2 t tv2 rfl)
            cases hl : c1.lookupNamed name t with
            | mk o2 c2 =>
              rw [hl] at g
              cases o2 with
              | none => exact ⟨g.1, fun u h => g.2.1 u (ih.2.1 u h), fun _ _ e => by cases e⟩
              | some nt => exact ⟨g.1, fun u h => g.2.1 u (ih.2.1 u h), fun _ _ e => by cases e; exact g.2.2 nt rfl⟩
    · by_cases h2 : b.toNat = tvNameRef
      · rw [byte_eq_byteOf b _ h2, decodeTV_nameref]
        cases hn : decodeName tv with
        | none => exact DGood_fail c hc
        | some p =>
          obtain ⟨name, tv1⟩ := p
          simp only
          cases hl : c.lookupTypeDef name with
          | none => exact DGood_fail c hc
          | some t =>
            have hin := hc.defs name t hl
            exact ⟨hc, fun _ h => h, fun _ _ e => by cases e; exact ⟨(hc.wf t hin.1).1, Or.inl hin.1⟩⟩
      · by_cases h3 : b.toNat = tvRecord
        · rw [byte_eq_byteOf b _ h3, decodeTV_record]
          cases hn : decodeLength tv with
          | none => exact DGood_fail c hc
          | some p =>
            obtain ⟨n, tv1⟩ := p
            simp only
            by_cases hmax : n > maxRecordFields
            · rw [if_pos hmax]; exact DGood_fail c hc
            · rw [if_neg hmax]
              have ih := decF_inv f n c tv1 hc
              cases hd : decodeFields f n c tv1 with
              | mk c1 o =>
                rw [hd] at ih
                cases o with
                | none => exact ⟨ih.1, ih.2.1, fun _ _ e => by cases e⟩
                | some q =>
                  obtain ⟨fs, tv2⟩ := q
                  simp only
                  have hfs := ih.2.2 fs tv2 rfl
                  have g := lookupRecord_good c1 ih.1 fs hfs.2 (by rw [hfs.1]; omega)
                  cases hl : c1.lookupRecord fs with
                  | mk o2 c2 =>
                    rw [hl] at g
                    cases o2 with
                    | none => exact ⟨g.1, fun u h => g.2.1 u (ih.2.1 u h), fun _ _ e => by cases e⟩
                    | some t => exact ⟨g.1, fun u h => g.2.1 u (ih.2.1 u h), fun _ _ e => by cases e; exact g.2.2 t rfl⟩
        · by_cases h4 : b.toNat = tvArray
          · rw [byte_eq_byteOf b _ h4, decodeTV_array]
            have ih := dec_inv f c tv hc
            cases hd : decodeTV f c tv with
            | mk c1 o =>
              rw [hd] at ih
              cases o with
              | none => exact ⟨ih.1, ih.2.1, fun _ _ e => by cases e⟩
              | some q =>
                obtain ⟨t, tv2⟩ := q
                simp only
                have sp := lookupArray_spec c1 ih.1 t (ih.2.2 t tv2 rfl)
                exact ⟨sp.2.1, fun u h => sp.2.2.2.1 u (ih.2.1 u h), fun _ _ e => by cases e; rw [sp.1]; exact sp.2.2.2.2⟩
          · by_cases h5 : b.toNat = tvSet
            · rw [byte_eq_byteOf b _ h5, decodeTV_set]
              have ih := dec_inv f c tv hc
              cases hd : decodeTV f c tv with
              | mk c1 o =>
                rw [hd] at ih
                cases o with
                | none => exact ⟨ih.1, ih.2.1, fun _ _ e => by cases e⟩
                | some q =>
                  obtain ⟨t, tv2⟩ := q
                  simp only
                  have sp := lookupSet_spec c1 ih.1 t (ih.2.2 t tv2 rfl)
                  exact ⟨sp.2.1, fun u h => sp.2.2.2.1 u (ih.2.1 u h), fun _ _ e => by cases e; rw [sp.1]; exact sp.2.2.2.2⟩
            · by_cases h6 : b.toNat = tvMap
              · rw [byte_eq_byteOf b _ h6, decodeTV_map]
                have ih := dec_inv f c tv hc
                cases hd : decodeTV f c tv with
                | mk c1 o =>
                  rw [hd] at ih
                  cases o with
                  | none => exact ⟨ih.1, ih.2.1, fun _ _ e => by cases e⟩
                  | some q =>
                    obtain ⟨k, tv2⟩ := q
                    simp only
                    have ih2 := dec_inv f c1 tv2 ih.1
                    cases hd2 : decodeTV f c1 tv2 with
                    | mk c2 o2 =>
                      rw [hd2] at ih2
                      cases o2 with
                      | none => exact ⟨ih2.1, fun u h => ih2.2.1 u (ih.2.1 u h), fun _ _ e => by cases e⟩
                      | some q2 =>
                        obtain ⟨v, tv3⟩ := q2
                        simp only
                        have sp := lookupMap_spec c2 ih2.1 k v (ih2.2.1 k (ih.2.2 k tv2 rfl)) (ih2.2.2 v tv3 rfl)
                        exact ⟨sp.2.1, fun u h => sp.2.2.2.1 u (ih2.2.1 u (ih.2.1 u h)),
                          fun _ _ e => by cases e; rw [sp.1]; exact sp.2.2.2.2⟩
              · by_cases h7 : b.toNat = tvUnion
                · rw [byte_eq_byteOf b _ h7, decodeTV_union]
                  cases hn : decodeLength tv with
                  | none => exact DGood_fail c hc
                  | some p =>
                    obtain ⟨n, tv1⟩ := p
                    simp only
                    by_cases hmax : n > maxUnionTypes
                    · rw [if_pos hmax]; exact DGood_fail c hc
                    · rw [if_neg hmax]
                      have ih := decT_inv f n c tv1 hc
                      cases hd : decodeTys f n c tv1 with
                      | mk c1 o =>
                        rw [hd] at ih
                        cases o with
                        | none => exact ⟨ih.1, ih.2.1, fun _ _ e => by cases e⟩
                        | some q =>
                          obtain ⟨ts, tv2⟩ := q
                          simp only
                          have hts := ih.2.2 ts tv2 rfl
                          have sp := lookupUnion_spec c1 ih.1 ts hts.2 (by rw [hts.1]; omega)
                          exact ⟨sp.2.1, fun u h => sp.2.2.2.1 u (ih.2.1 u h),
                            fun _ _ e => by cases e; rw [sp.1]; exact sp.2.2.2.2⟩
                · by_cases h8 : b.toNat = tvEnum
                  · rw [byte_eq_byteOf b _ h8, decodeTV_enum]
                    cases hn : decodeLength tv with
                    | none => exact DGood_fail c hc
                    | some p =>
                      obtain ⟨n, tv1⟩ := p
                      simp only
                      by_cases hmax : n > maxEnumSymbols
                      · rw [if_pos hmax]; exact DGood_fail c hc
                      · rw [if_neg hmax]
                        cases hs : decodeSyms n tv1 with
                        | none => exact DGood_fail c hc
                        | some q =>
                          obtain ⟨syms, tv2⟩ := q
                          simp only
                          have ok := decodeSyms_ok n tv1 syms tv2 hs
                          have sp := lookupEnum_spec c hc syms ok.2 (by rw [ok.1]; omega)
                          exact ⟨sp.2.1, sp.2.2.2.1, fun _ _ e => by cases e; rw [sp.1]; exact sp.2.2.2.2⟩
                  · by_cases h9 : b.toNat = tvError
                    · rw [byte_eq_byteOf b _ h9, decodeTV_error]
                      have ih := dec_inv f c tv hc
                      cases hd : decodeTV f c tv with
                      | mk c1 o =>
                        rw [hd] at ih
                        cases o with
                        | none => exact ⟨ih.1, ih.2.1, fun _ _ e => by cases e⟩
                        | some q =>
                          obtain ⟨t, tv2⟩ := q
                          simp only
                          have sp := lookupError_spec c1 ih.1 t (ih.2.2 t tv2 rfl)
                          exact ⟨sp.2.1, fun u h => sp.2.2.2.1 u (ih.2.1 u h), fun _ _ e => by cases e; rw [sp.1]; exact sp.2.2.2.2⟩
                    · rw [decodeTV_other f c b tv h1 h2 h3 h4 h5 h6 h7 h8 h9]
                      cases hp : primitiveByID? b.toNat with
                      | none => exact DGood_fail c hc
                      | some t => exact ⟨hc, fun _ h => h, fun _ _ e => by cases e; exact primitiveByID?_has c _ t hp⟩
theorem decF_inv : (f n : Nat) → (c : Ctx) → (bs : Bytes) → c.Inv → DGoodF c n (decodeFields f n c bs)
  | f, 0, c, bs, hc => by
    rw [decodeFields]; exact ⟨hc, fun _ h => h, fun fs rest e => by cases e; simp⟩
  | 0, n+1, c, bs, hc => by
    rw [decodeFields]; exact ⟨hc, fun _ h => h, fun _ _ e => by cases e⟩
  | f+1, n+1, c, bs, hc => by
    rw [decodeFields]
    cases hn : decodeName bs with
    | none => exact ⟨hc, fun _ h => h, fun _ _ e => by cases e⟩
    | some p =>
      obtain ⟨name, tv1⟩ := p
      simp only
      have ih := dec_inv f c tv1 hc
      cases hd : decodeTV f c tv1 with
      | mk c1 o =>
        rw [hd] at ih
        cases o with
        | none => exact ⟨ih.1, ih.2.1, fun _ _ e => by cases e⟩
        | some q =>
          obtain ⟨t, tv2⟩ := q
          simp only
          have ih2 := decF_inv f n c1 tv2 ih.1
          cases hd2 : decodeFields f n c1 tv2 with
          | mk c2 o2 =>
            rw [hd2] at ih2
            cases o2 with
            | none => exact ⟨ih2.1, fun u h => ih2.2.1 u (ih.2.1 u h), fun _ _ e => by cases e⟩
            | some q2 =>
              obtain ⟨fs, tv3⟩ := q2
              simp only
              have hfs := ih2.2.2 fs tv3 rfl
              refine ⟨ih2.1, fun u h => ih2.2.1 u (ih.2.1 u h), fun fs' rest e => ?_⟩
              cases e
              refine ⟨by simp [hfs.1], fun p hp => ?_⟩
              simp only [mem_cons] at hp
              rcases hp with rfl | hp
              · exact ⟨decodeName_nameOk hn, ih2.2.1 _ (ih.2.2 t tv2 rfl)⟩
              · exact hfs.2 p hp
theorem decT_inv : (f n : Nat) → (c : Ctx) → (bs : Bytes) → c.Inv → DGoodT c n (decodeTys f n c bs)
  | f, 0, c, bs, hc => by
    rw [decodeTys]; exact ⟨hc, fun _ h => h, fun ts rest e => by cases e; simp⟩
  | 0, n+1, c, bs, hc => by
    rw [decodeTys]; exact ⟨hc, fun _ h => h, fun _ _ e => by cases e⟩
  | f+1, n+1, c, bs, hc => by
    rw [decodeTys]
    have ih := dec_inv f c bs hc
    cases hd : decodeTV f c bs with
    | mk c1 o =>
      rw [hd] at ih
      cases o with
      | none => exact ⟨ih.1, ih.2.1, fun _ _ e => by cases e⟩
      | some q =>
        obtain ⟨t, tv2⟩ := q
        simp only
        have ih2 := decT_inv f n c1 tv2 ih.1
        cases hd2 : decodeTys f n c1 tv2 with
        | mk c2 o2 =>
          rw [hd2] at ih2
          cases o2 with
          | none => exact ⟨ih2.1, fun u h => ih2.2.1 u (ih.2.1 u h), fun _ _ e => by cases e⟩
          | some q2 =>
            obtain ⟨ts, tv3⟩ := q2
            simp only
            have hts := ih2.2.2 ts tv3 rfl
            refine ⟨ih2.1, fun u h => ih2.2.1 u (ih.2.1 u h), fun ts' rest e => ?_⟩
            cases e
            refine ⟨by simp [hts.1], fun u hu => ?_⟩
            simp only [mem_cons] at hu
            rcases hu with rfl | hu
            · exact ih2.2.1 _ (ih.2.2 _ tv2 rfl)
            · exact hts.2 u hu
end

end Ctx
end Zed
