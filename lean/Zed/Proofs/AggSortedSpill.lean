/-
  Sorted-input mode of the group-by Aggregator WITH spills (C10): Zed/Model/AggSortedSpill.lean.

  Main result
    * `sorted_spill_release_safe` — for every batching, table limit and choice `pick` of the row
      maxSpillKey is taken from: if the input is sorted on the primary key and the comparator is
      faithful on the keys present, the early releases (from the table before the first spill,
      from the front of the merged spill stream afterwards) never emit a group that is needed
      again: the output has exactly one row per distinct key, holding that key's aggregate.

  Method: an invariant `SInv st xs ys` (xs consumed, ys still to come) preserved by `ssConsume`
  (`sinv_keep`, `sinv_spill`) and by `ssRelease` (`sinv_release`, using `relSpill_none`, the
  analogue of `AggGroupby.regroup_none` for the partial re-grouping of the spill stream).
-/
import Zed.Model.AggSortedSpill
import Zed.Proofs.AggGroupby
import Zed.Proofs.AggSorted
namespace Zed.Proofs.AggSortedSpill
open Zed.Agg
open Zed.Proofs.AggGroupby
open Zed.Proofs.AggSorted (supsert_keys total_supsert supsert_mem newMax newMax_ge newMax_cases
  ltOf_irrefl filter_split_perm)
variable {K S P : Type} [DecidableEq K]

/-! ### small facts -/

omit [DecidableEq K] in
theorem keys_tableRows (t : List (SRow K S P)) : (tableRows t).map (·.1) = t.map (·.key) := by
  simp [tableRows, List.map_map, Function.comp_def]

omit [DecidableEq K] in
theorem mem_tableRows (t : List (SRow K S P)) (x : K × S) (h : x ∈ tableRows t) :
    ∃ r ∈ t, r.key = x.1 := by
  simp only [tableRows, List.mem_map] at h
  obtain ⟨r, hr, e⟩ := h
  exact ⟨r, hr, by rw [← e]⟩

theorem newMaxKey_eq (vle : P → P → Bool) (mk : Option P) (p : P) :
    newMaxKey vle mk p = newMax vle mk p := by
  cases mk <;> rfl

theorem any_key_iff (t : List (SRow K S P)) (k : K) :
    t.any (fun x => x.key == k) = true ↔ k ∈ t.map (·.key) := by
  simp only [List.any_eq_true, List.mem_map, beq_iff_eq]

theorem ltOf_le_trans (vle : P → P → Bool) (hv : TotalPreorder vle) {a b c : P}
    (h1 : ltOf vle a b = true) (h2 : vle b c = true) : ltOf vle a c = true := by
  simp only [ltOf, Bool.and_eq_true, Bool.not_eq_true'] at h1 ⊢
  refine ⟨hv.trans _ _ _ h1.1 h2, ?_⟩
  cases h3 : vle c a
  · rfl
  · have := hv.trans _ _ _ h2 h3
    rw [h1.2] at this
    cases this

theorem le_ltOf_trans (vle : P → P → Bool) (hv : TotalPreorder vle) {a b c : P}
    (h1 : vle a b = true) (h2 : ltOf vle b c = true) : ltOf vle a c = true := by
  simp only [ltOf, Bool.and_eq_true, Bool.not_eq_true'] at h2 ⊢
  refine ⟨hv.trans _ _ _ h1 h2.1, ?_⟩
  cases h3 : vle c a
  · rfl
  · have := hv.trans _ _ _ h3 h1
    rw [h2.2] at this
    cases this

theorem ltOf_not_le (vle : P → P → Bool) {a b : P}
    (h1 : ltOf vle a b = true) (h2 : vle b a = true) : False := by
  simp only [ltOf, Bool.and_eq_true, Bool.not_eq_true'] at h1
  rw [h1.2] at h2
  cases h2

/-! ### the table -/

theorem supsert_fresh (m : Mon S) (t : List (SRow K S P)) (k : K) (s : S) (g : P)
    (h : k ∉ t.map (·.key)) : supsert m t k s g = t ++ [⟨k, m.op m.e s, g⟩] := by
  induction t with
  | nil => rfl
  | cons r t ih =>
    rw [List.map_cons, List.mem_cons, not_or] at h
    simp only [supsert]
    rw [if_neg (fun e => h.1 e.symm), ih h.2, List.cons_append]

theorem supsert_same (m : Mon S) (hm : m.CommLaws) (t : List (SRow K S P)) (k : K) (s : S) (g : P) :
    Same m (tableRows (supsert m t k s g)) (tableRows t ++ [(k, s)]) := by
  refine ⟨fun k' => ?_, fun k' => ?_⟩
  · rw [List.map_append, keys_tableRows, keys_tableRows, supsert_keys]
    split
    · rename_i hin
      simp only [List.map_cons, List.map_nil, List.mem_append, List.mem_singleton]
      constructor
      · exact Or.inl
      · rintro (h | h)
        · exact h
        · subst h; exact hin
    · simp
  · have := total_supsert m hm t k k' s g
    simp only [tableRows] at this ⊢
    rw [this, AggGroupby.total_append m hm.toLaws]
    simp only [total]
    split
    · rw [hm.right_id]
    · rw [hm.right_id]

/-- maxSpillKey after a spill of a table with rows `rows` -/
def nextMs (prim : K → P) (vle : P → P → Bool) (pick : List (K × S) → Option (K × S))
    (rows : List (K × S)) (old : Option P) : Option P :=
  match pick rows with
  | none => old
  | some x => some (newMax vle old (prim x.1))

omit [DecidableEq K] in
theorem nextMs_cases (prim : K → P) (vle : P → P → Bool) (pick : List (K × S) → Option (K × S))
    (hpick : ∀ l x, pick l = some x → x ∈ l) (rows : List (K × S)) (old : Option P) (q : P)
    (h : nextMs prim vle pick rows old = some q) :
    old = some q ∨ ∃ x ∈ rows, q = prim x.1 := by
  unfold nextMs at h
  split at h
  · exact Or.inl h
  · rename_i x hx
    simp only [Option.some.injEq] at h
    subst h
    rcases newMax_cases vle old (prim x.1) with e | e
    · exact Or.inr ⟨x, hpick _ _ hx, e⟩
    · exact Or.inl e

theorem ssConsume_keep (m : Mon S) (le : K → K → Bool) (prim : K → P) (vle : P → P → Bool)
    (pick : List (K × S) → Option (K × S)) (limit : Nat) (st : SSGB K S P) (r : K × S)
    (h : r.1 ∈ st.table.map (·.key) ∨ st.table.length < limit) :
    ssConsume m le prim vle pick limit st r =
      { st with table := supsert m st.table r.1 r.2 (newMax vle st.maxKey (prim r.1)),
                maxKey := some (newMax vle st.maxKey (prim r.1)) } := by
  unfold ssConsume
  simp only [newMaxKey_eq]
  by_cases hin : r.1 ∈ st.table.map (·.key)
  · rw [if_pos ((any_key_iff _ _).2 hin)]
  · rw [if_neg (fun e => hin ((any_key_iff _ _).1 e))]
    have hlt : st.table.length < limit := h.resolve_left hin
    rw [if_neg (by omega), supsert_fresh m _ _ _ _ hin]

theorem ssConsume_spill (m : Mon S) (le : K → K → Bool) (prim : K → P) (vle : P → P → Bool)
    (pick : List (K × S) → Option (K × S)) (limit : Nat) (st : SSGB K S P) (r : K × S)
    (hin : r.1 ∉ st.table.map (·.key)) (hlen : st.table.length ≥ limit) :
    ssConsume m le prim vle pick limit st r =
      { st with table := [⟨r.1, m.op m.e r.2, newMax vle st.maxKey (prim r.1)⟩],
                maxKey := some (newMax vle st.maxKey (prim r.1)),
                pending := isort (rowLe le) (st.pending ++ isort (rowLe le) (tableRows st.table)),
                maxSpill := nextMs prim vle pick (tableRows st.table) st.maxSpill,
                spilled := true } := by
  unfold ssConsume
  simp only [newMaxKey_eq]
  rw [if_neg (fun e => hin ((any_key_iff _ _).1 e)), if_pos hlen]
  rfl

/-! ### the invariant -/

/-- `xs` is the input consumed so far, `ys` the input still to come -/
structure SInv (m : Mon S) (le : K → K → Bool) (prim : K → P) (vle : P → P → Bool)
    (st : SSGB K S P) (xs ys : List (K × S)) : Prop where
  /-- released + spilled + table rows hold exactly the keys and per-key aggregates of `xs` -/
  same : Same m (st.out ++ st.pending ++ tableRows st.table) xs
  outNodup : (st.out.map (·.1)).Nodup
  tabNodup : (st.table.map (·.key)).Nodup
  outPend : ∀ k ∈ st.out.map (·.1), k ∉ st.pending.map (·.1)
  outTab : ∀ k ∈ st.out.map (·.1), k ∉ st.table.map (·.key)
  pendSorted : st.pending.Pairwise (fun a b => rowLe le a b = true)
  unspilled : st.spilled = false → st.pending = [] ∧ st.maxSpill = none
  sorted : ys.Pairwise (fun a b => vle (prim a.1) (prim b.1) = true)
  /-- released keys are strictly in the past -/
  past : ∀ k ∈ st.out.map (·.1), ∀ y ∈ ys, ltOf vle (prim k) (prim y.1) = true
  gvge : ∀ r ∈ st.table, vle (prim r.key) r.gv = true
  mkle : ∀ mk, st.maxKey = some mk → ∀ y ∈ ys, vle mk (prim y.1) = true
  tabYs : ∀ r ∈ st.table, ∀ y ∈ ys, vle (prim r.key) (prim y.1) = true
  /-- maxSpillKey is at most every primary key in the table and still to come -/
  msTab : ∀ ms, st.maxSpill = some ms → ∀ r ∈ st.table, vle ms (prim r.key) = true
  msYs : ∀ ms, st.maxSpill = some ms → ∀ y ∈ ys, vle ms (prim y.1) = true

theorem sinv_init (m : Mon S) (le : K → K → Bool) (prim : K → P) (vle : P → P → Bool)
    (ys : List (K × S)) (hs : ys.Pairwise (fun a b => vle (prim a.1) (prim b.1) = true)) :
    SInv m le prim vle ({} : SSGB K S P) [] ys where
  same := Same.refl m _
  outNodup := List.nodup_nil
  tabNodup := List.nodup_nil
  outPend := by intro k hk; cases hk
  outTab := by intro k hk; cases hk
  pendSorted := List.Pairwise.nil
  unspilled := fun _ => ⟨rfl, rfl⟩
  sorted := hs
  past := by intro k hk; cases hk
  gvge := by intro r hr; cases hr
  mkle := by intro mk h; cases h
  tabYs := by intro r hr; cases hr
  msTab := by intro ms h; cases h
  msYs := by intro ms h; cases h

theorem sinv_keep (m : Mon S) (hm : m.CommLaws) (le : K → K → Bool) (prim : K → P)
    (vle : P → P → Bool) (hv : TotalPreorder vle) (st : SSGB K S P) (xs : List (K × S))
    (r : K × S) (ys : List (K × S)) (h : SInv m le prim vle st xs (r :: ys)) :
    SInv m le prim vle
      { st with table := supsert m st.table r.1 r.2 (newMax vle st.maxKey (prim r.1)),
                maxKey := some (newMax vle st.maxKey (prim r.1)) } (xs ++ [r]) ys := by
  obtain ⟨k, s⟩ := r
  have hs := List.pairwise_cons.1 h.sorted
  have hrout : k ∉ st.out.map (·.1) := by
    intro hmem
    have := h.past k hmem (k, s) List.mem_cons_self
    rw [ltOf_irrefl] at this
    cases this
  have hmem := supsert_mem m st.table k s (newMax vle st.maxKey (prim k))
  have hkeys := supsert_keys m st.table k s (newMax vle st.maxKey (prim k))
  refine { same := ?_, outNodup := h.outNodup, tabNodup := ?_, outPend := h.outPend, outTab := ?_,
           pendSorted := h.pendSorted, unspilled := h.unspilled, sorted := hs.2, past := ?_,
           gvge := ?_, mkle := ?_, tabYs := ?_, msTab := ?_, msYs := ?_ }
  · show Same m (st.out ++ st.pending ++ tableRows (supsert m st.table k s _)) (xs ++ [(k, s)])
    refine (Same.append hm.toLaws (Same.refl m (st.out ++ st.pending))
      (supsert_same m hm st.table k s _)).trans ?_
    rw [← List.append_assoc]
    exact Same.append hm.toLaws h.same (Same.refl m _)
  · show ((supsert m st.table k s _).map (·.key)).Nodup
    rw [hkeys]
    split
    · exact h.tabNodup
    · rename_i hnot
      refine List.nodup_append.2 ⟨h.tabNodup, by simp, ?_⟩
      intro a ha b hb
      simp only [List.mem_singleton] at hb
      subst hb
      intro e
      exact hnot (e ▸ ha)
  · intro k' hk' hin
    change k' ∈ (supsert m st.table k s _).map (·.key) at hin
    rw [hkeys] at hin
    split at hin
    · exact h.outTab k' hk' hin
    · rcases List.mem_append.1 hin with h1 | h1
      · exact h.outTab k' hk' h1
      · simp only [List.mem_singleton] at h1
        subst h1
        exact hrout hk'
  · intro k' hk' y hy
    exact h.past k' hk' y (List.mem_cons_of_mem _ hy)
  · intro r' hr'
    rcases hmem r' hr' with ⟨r0, h0, hk, hg⟩ | ⟨hk, hg⟩
    · rw [← hk, ← hg]; exact h.gvge r0 h0
    · rw [hk, hg]; exact newMax_ge vle hv _ _
  · intro mk hmk y hy
    change some (newMax vle st.maxKey (prim k)) = some mk at hmk
    simp only [Option.some.injEq] at hmk
    subst hmk
    rcases newMax_cases vle st.maxKey (prim k) with e | e
    · rw [e]; exact hs.1 y hy
    · exact h.mkle _ e y (List.mem_cons_of_mem _ hy)
  · intro r' hr' y hy
    rcases hmem r' hr' with ⟨r0, h0, hk, _⟩ | ⟨hk, _⟩
    · rw [← hk]; exact h.tabYs r0 h0 y (List.mem_cons_of_mem _ hy)
    · rw [hk]; exact hs.1 y hy
  · intro ms hms r' hr'
    rcases hmem r' hr' with ⟨r0, h0, hk, _⟩ | ⟨hk, _⟩
    · rw [← hk]; exact h.msTab ms hms r0 h0
    · rw [hk]; exact h.msYs ms hms (k, s) List.mem_cons_self
  · intro ms hms y hy
    exact h.msYs ms hms y (List.mem_cons_of_mem _ hy)

theorem sinv_spill (m : Mon S) (hm : m.CommLaws) (le : K → K → Bool) (hle : TotalPreorder le)
    (prim : K → P) (vle : P → P → Bool) (hv : TotalPreorder vle) (st : SSGB K S P)
    (xs : List (K × S)) (r : K × S) (ys : List (K × S)) (ms' : Option P)
    (hms' : ∀ q, ms' = some q → st.maxSpill = some q ∨ ∃ x ∈ tableRows st.table, q = prim x.1)
    (h : SInv m le prim vle st xs (r :: ys)) :
    SInv m le prim vle
      { st with table := [⟨r.1, m.op m.e r.2, newMax vle st.maxKey (prim r.1)⟩],
                maxKey := some (newMax vle st.maxKey (prim r.1)),
                pending := isort (rowLe le) (st.pending ++ isort (rowLe le) (tableRows st.table)),
                maxSpill := ms',
                spilled := true } (xs ++ [r]) ys := by
  obtain ⟨k, s⟩ := r
  have hs := List.pairwise_cons.1 h.sorted
  have hrout : k ∉ st.out.map (·.1) := by
    intro hmem
    have := h.past k hmem (k, s) List.mem_cons_self
    rw [ltOf_irrefl] at this
    cases this
  have hperm : (isort (rowLe le) (st.pending ++ isort (rowLe le) (tableRows st.table))).Perm
      (st.pending ++ tableRows st.table) :=
    (isort_perm _ _).trans (List.Perm.append_left _ (isort_perm _ _))
  -- the new maxSpillKey is at most the primary key of the row being consumed and of all later rows
  have hmsle : ∀ q, ms' = some q → ∀ y ∈ (k, s) :: ys, vle q (prim y.1) = true := by
    intro q hq y hy
    rcases hms' q hq with e | ⟨x, hx, e⟩
    · exact h.msYs q e y hy
    · obtain ⟨r0, h0, hk0⟩ := mem_tableRows _ x hx
      rw [e, ← hk0]
      exact h.tabYs r0 h0 y hy
  refine { same := ?_, outNodup := h.outNodup, tabNodup := ?_, outPend := ?_, outTab := ?_,
           pendSorted := ?_, unspilled := ?_, sorted := hs.2, past := ?_,
           gvge := ?_, mkle := ?_, tabYs := ?_, msTab := ?_, msYs := ?_ }
  · show Same m (st.out ++ isort (rowLe le) (st.pending ++ isort (rowLe le) (tableRows st.table))
      ++ [(k, m.op m.e s)]) (xs ++ [(k, s)])
    refine Same.append hm.toLaws ?_ (Same.fresh hm.toLaws k s [])
    refine Same.trans ?_ h.same
    rw [List.append_assoc]
    exact Same.append hm.toLaws (Same.refl m _) (Same.of_perm hm hperm)
  · show ([k] : List K).Nodup
    simp
  · intro k' hk' hin
    have hin' := (hperm.map (fun x : K × S => x.1)).mem_iff.1 hin
    rw [List.map_append, List.mem_append, keys_tableRows] at hin'
    rcases hin' with h1 | h1
    · exact h.outPend k' hk' h1
    · exact h.outTab k' hk' h1
  · intro k' hk' hin
    change k' ∈ [k] at hin
    simp only [List.mem_singleton] at hin
    subst hin
    exact hrout hk'
  · exact isort_sorted _ (rowLe_totalPreorder hle) _
  · intro hf
    cases hf
  · intro k' hk' y hy
    exact h.past k' hk' y (List.mem_cons_of_mem _ hy)
  · intro r' hr'
    change r' ∈ [_] at hr'
    simp only [List.mem_singleton] at hr'
    subst hr'
    exact newMax_ge vle hv _ _
  · intro mk hmk y hy
    change some (newMax vle st.maxKey (prim k)) = some mk at hmk
    simp only [Option.some.injEq] at hmk
    subst hmk
    rcases newMax_cases vle st.maxKey (prim k) with e | e
    · rw [e]; exact hs.1 y hy
    · exact h.mkle _ e y (List.mem_cons_of_mem _ hy)
  · intro r' hr' y hy
    change r' ∈ [_] at hr'
    simp only [List.mem_singleton] at hr'
    subst hr'
    exact hs.1 y hy
  · intro q hq r' hr'
    change r' ∈ [_] at hr'
    simp only [List.mem_singleton] at hr'
    subst hr'
    exact hmsle q hq (k, s) List.mem_cons_self
  · intro q hq y hy
    exact hmsle q hq y (List.mem_cons_of_mem _ hy)

theorem sinv_consume (m : Mon S) (hm : m.CommLaws) (le : K → K → Bool) (hle : TotalPreorder le)
    (prim : K → P) (vle : P → P → Bool) (hv : TotalPreorder vle)
    (pick : List (K × S) → Option (K × S)) (hpick : ∀ l x, pick l = some x → x ∈ l)
    (limit : Nat) (st : SSGB K S P) (xs : List (K × S)) (r : K × S) (ys : List (K × S))
    (h : SInv m le prim vle st xs (r :: ys)) :
    SInv m le prim vle (ssConsume m le prim vle pick limit st r) (xs ++ [r]) ys := by
  by_cases hc : r.1 ∈ st.table.map (·.key) ∨ st.table.length < limit
  · rw [ssConsume_keep m le prim vle pick limit st r hc]
    exact sinv_keep m hm le prim vle hv st xs r ys h
  · rw [not_or] at hc
    rw [ssConsume_spill m le prim vle pick limit st r hc.1 (by omega)]
    exact sinv_spill m hm le hle prim vle hv st xs r ys _
      (fun q hq => nextMs_cases prim vle pick hpick _ _ q hq) h

theorem sinv_foldl (m : Mon S) (hm : m.CommLaws) (le : K → K → Bool) (hle : TotalPreorder le)
    (prim : K → P) (vle : P → P → Bool) (hv : TotalPreorder vle)
    (pick : List (K × S) → Option (K × S)) (hpick : ∀ l x, pick l = some x → x ∈ l)
    (limit : Nat) (b : List (K × S)) (st : SSGB K S P) (xs ys : List (K × S))
    (h : SInv m le prim vle st xs (b ++ ys)) :
    SInv m le prim vle (b.foldl (ssConsume m le prim vle pick limit) st) (xs ++ b) ys := by
  induction b generalizing st xs with
  | nil => simpa using h
  | cons r b ih =>
    have := ih _ _ (sinv_consume m hm le hle prim vle hv pick hpick limit st xs r (b ++ ys) h)
    simpa [List.append_assoc] using this

/-! ### `relSpill`: partial re-grouping of the sorted spill stream -/

omit [DecidableEq K] in
theorem relSpill_some_eq (m : Mon S) (le : K → K → Bool) (prim : K → P) (vle : P → P → Bool)
    (ms : P) (k : K) (acc : S) (r : K × S) (rest : List (K × S)) (he : eqv le k r.1 = true) :
    relSpill m le prim vle ms (some (k, acc)) (r :: rest) =
      relSpill m le prim vle ms (some (k, m.op acc r.2)) rest := by
  simp only [relSpill, he, if_true]

omit [DecidableEq K] in
theorem relSpill_some_lt (m : Mon S) (le : K → K → Bool) (prim : K → P) (vle : P → P → Bool)
    (ms : P) (k : K) (acc : S) (r : K × S) (rest : List (K × S)) (he : ¬ eqv le k r.1 = true)
    (hlt : ltOf vle (prim r.1) ms = true) :
    relSpill m le prim vle ms (some (k, acc)) (r :: rest) =
      ((k, acc) :: (relSpill m le prim vle ms (some (r.1, m.op m.e r.2)) rest).1,
        (relSpill m le prim vle ms (some (r.1, m.op m.e r.2)) rest).2) := by
  simp only [relSpill, if_neg he, hlt, if_true]

omit [DecidableEq K] in
theorem relSpill_some_stop (m : Mon S) (le : K → K → Bool) (prim : K → P) (vle : P → P → Bool)
    (ms : P) (k : K) (acc : S) (r : K × S) (rest : List (K × S)) (he : ¬ eqv le k r.1 = true)
    (hlt : ¬ ltOf vle (prim r.1) ms = true) :
    relSpill m le prim vle ms (some (k, acc)) (r :: rest) = ([(k, acc)], r :: rest) := by
  simp only [relSpill, if_neg he, if_neg hlt]

/-- merging a row into the accumulator of its own key -/
theorem same_merge (m : Mon S) (hm : m.Laws) (k : K) (acc : S) (r : K × S) (A : List (K × S))
    (hrk : r.1 = k) : Same m ((k, m.op acc r.2) :: A) ((k, acc) :: r :: A) := by
  refine ⟨fun k' => ?_, fun k' => ?_⟩
  · simp only [List.map_cons, List.mem_cons, hrk]
    constructor
    · rintro (h | h)
      · exact Or.inl h
      · exact Or.inr (Or.inr h)
    · rintro (h | h | h)
      · exact Or.inl h
      · exact Or.inl h
      · exact Or.inr h
  · simp only [total_cons, hrk]
    split
    · rw [hm.assoc]
    · rfl

omit [DecidableEq K] in
/-- in a sorted stream, a group head that does not compare equal to the next row has no row
    of its key further on -/
theorem head_not_mem (le : K → K → Bool) (hle : TotalPreorder le) (k : K) (r : K × S)
    (rest : List (K × S)) (hsorted : ∀ r' ∈ rest, rowLe le r r' = true)
    (hkr : le k r.1 = true) (he : ¬ eqv le k r.1 = true) : k ∉ (r :: rest).map (·.1) := by
  intro hmem
  apply he
  have hrk : le r.1 k = true := by
    rw [List.map_cons, List.mem_cons] at hmem
    rcases hmem with h | h
    · rw [← h]; exact hle.refl k
    · obtain ⟨r', hr', e⟩ := List.mem_map.1 h
      have := hsorted r' hr'
      simp only [rowLe] at this
      rw [← e]; exact this
  simp only [eqv, hkr, hrk, Bool.and_self]

theorem relSpill_some (m : Mon S) (hm : m.Laws) (le : K → K → Bool) (hle : TotalPreorder le)
    (prim : K → P) (vle : P → P → Bool) (ms : P)
    (ks : List K) (hf : ∀ a ∈ ks, ∀ b ∈ ks, eqv le a b = true → a = b)
    (L : List (K × S)) (k : K) (acc : S)
    (hsorted : L.Pairwise (fun a b => rowLe le a b = true))
    (hlow : ∀ r ∈ L, le k r.1 = true)
    (hk : k ∈ ks) (hL : ∀ r ∈ L, r.1 ∈ ks)
    (hkms : ltOf vle (prim k) ms = true) :
    ∃ pre, L = pre ++ (relSpill m le prim vle ms (some (k, acc)) L).2 ∧
      Same m (relSpill m le prim vle ms (some (k, acc)) L).1 ((k, acc) :: pre) ∧
      ((relSpill m le prim vle ms (some (k, acc)) L).1.map (·.1)).Nodup ∧
      (∀ k' ∈ (relSpill m le prim vle ms (some (k, acc)) L).1.map (·.1),
        ltOf vle (prim k') ms = true) ∧
      (∀ k' ∈ (relSpill m le prim vle ms (some (k, acc)) L).1.map (·.1),
        k' ∉ (relSpill m le prim vle ms (some (k, acc)) L).2.map (·.1)) := by
  induction L generalizing k acc with
  | nil =>
    simp only [relSpill]
    refine ⟨[], rfl, Same.refl m _, by simp, ?_, by simp⟩
    intro k' hk'
    simp only [List.map_cons, List.map_nil, List.mem_singleton] at hk'
    subst hk'
    exact hkms
  | cons r rest ih =>
    rw [List.pairwise_cons] at hsorted
    by_cases he : eqv le k r.1 = true
    · rw [relSpill_some_eq m le prim vle ms k acc r rest he]
      have hrk : r.1 = k := (hf k hk r.1 (hL r List.mem_cons_self) he).symm
      obtain ⟨pre, hpre, hs, hn, hlt, hdis⟩ := ih k (m.op acc r.2) hsorted.2
        (fun r' hr' => hlow r' (List.mem_cons_of_mem _ hr')) hk
        (fun r' hr' => hL r' (List.mem_cons_of_mem _ hr')) hkms
      exact ⟨r :: pre, congrArg (List.cons r) hpre, hs.trans (same_merge m hm k acc r pre hrk),
        hn, hlt, hdis⟩
    · have hnot : k ∉ (r :: rest).map (·.1) :=
        head_not_mem le hle k r rest hsorted.1 (hlow r List.mem_cons_self) he
      by_cases hlt : ltOf vle (prim r.1) ms = true
      · rw [relSpill_some_lt m le prim vle ms k acc r rest he hlt]
        obtain ⟨pre, hpre, hs, hn, hlt', hdis⟩ := ih r.1 (m.op m.e r.2) hsorted.2
          (fun r' hr' => hsorted.1 r' hr') (hL r List.mem_cons_self)
          (fun r' hr' => hL r' (List.mem_cons_of_mem _ hr')) hlt
        generalize relSpill m le prim vle ms (some (r.1, m.op m.e r.2)) rest = res
          at hpre hs hn hlt' hdis ⊢
        have hs' : Same m res.1 (r :: pre) := hs.trans (Same.fresh hm r.1 r.2 pre)
        have hpresub : ∀ k', k' ∈ pre.map (·.1) → k' ∈ rest.map (·.1) := by
          intro k' hk'
          rw [hpre, List.map_append]
          exact List.mem_append_left _ hk'
        have hremsub : ∀ k', k' ∈ res.2.map (·.1) → k' ∈ rest.map (·.1) := by
          intro k' hk'
          rw [hpre, List.map_append]
          exact List.mem_append_right _ hk'
        have hk1 : k ∉ res.1.map (·.1) := by
          intro hin
          have := (hs'.1 k).1 hin
          rw [List.map_cons, List.mem_cons] at this
          apply hnot
          rw [List.map_cons, List.mem_cons]
          exact this.imp id (hpresub k)
        have hk2 : k ∉ res.2.map (·.1) := by
          intro hin
          apply hnot
          rw [List.map_cons, List.mem_cons]
          exact Or.inr (hremsub k hin)
        refine ⟨r :: pre, congrArg (List.cons r) hpre, Same.cons _ hs', ?_, ?_, ?_⟩
        · show (((k, acc) :: res.1).map (·.1)).Nodup
          rw [List.map_cons, List.nodup_cons]
          exact ⟨hk1, hn⟩
        · intro k' hk'
          change k' ∈ ((k, acc) :: res.1).map (·.1) at hk'
          rw [List.map_cons, List.mem_cons] at hk'
          rcases hk' with e | hk'
          · rw [e]; exact hkms
          · exact hlt' k' hk'
        · intro k' hk'
          change k' ∈ ((k, acc) :: res.1).map (·.1) at hk'
          show k' ∉ res.2.map (·.1)
          rw [List.map_cons, List.mem_cons] at hk'
          rcases hk' with e | hk'
          · rw [e]; exact hk2
          · exact hdis k' hk'
      · rw [relSpill_some_stop m le prim vle ms k acc r rest he hlt]
        refine ⟨[], rfl, Same.refl m _, by simp, ?_, ?_⟩
        · intro k' hk'
          simp only [List.map_cons, List.map_nil, List.mem_singleton] at hk'
          subst hk'
          exact hkms
        · intro k' hk'
          simp only [List.map_cons, List.map_nil, List.mem_singleton] at hk'
          subst hk'
          exact hnot

theorem relSpill_none (m : Mon S) (hm : m.Laws) (le : K → K → Bool) (hle : TotalPreorder le)
    (prim : K → P) (vle : P → P → Bool) (ms : P)
    (ks : List K) (hf : ∀ a ∈ ks, ∀ b ∈ ks, eqv le a b = true → a = b)
    (L : List (K × S))
    (hsorted : L.Pairwise (fun a b => rowLe le a b = true))
    (hL : ∀ r ∈ L, r.1 ∈ ks) :
    ∃ pre, L = pre ++ (relSpill m le prim vle ms none L).2 ∧
      Same m (relSpill m le prim vle ms none L).1 pre ∧
      ((relSpill m le prim vle ms none L).1.map (·.1)).Nodup ∧
      (∀ k' ∈ (relSpill m le prim vle ms none L).1.map (·.1), ltOf vle (prim k') ms = true) ∧
      (∀ k' ∈ (relSpill m le prim vle ms none L).1.map (·.1),
        k' ∉ (relSpill m le prim vle ms none L).2.map (·.1)) := by
  cases L with
  | nil =>
    simp only [relSpill]
    exact ⟨[], rfl, Same.refl m _, by simp, by simp, by simp⟩
  | cons r rest =>
    rw [List.pairwise_cons] at hsorted
    by_cases hlt : ltOf vle (prim r.1) ms = true
    · have e : relSpill m le prim vle ms none (r :: rest) =
          relSpill m le prim vle ms (some (r.1, m.op m.e r.2)) rest := by
        simp only [relSpill, hlt, if_true]
      rw [e]
      obtain ⟨pre, hpre, hs, hn, hlt', hdis⟩ := relSpill_some m hm le hle prim vle ms ks hf rest
        r.1 (m.op m.e r.2) hsorted.2 (fun r' hr' => hsorted.1 r' hr') (hL r List.mem_cons_self)
        (fun r' hr' => hL r' (List.mem_cons_of_mem _ hr')) hlt
      exact ⟨r :: pre, congrArg (List.cons r) hpre, hs.trans (Same.fresh hm r.1 r.2 pre),
        hn, hlt', hdis⟩
    · have e : relSpill m le prim vle ms none (r :: rest) = ([], r :: rest) := by
        simp only [relSpill, if_neg hlt]
      rw [e]
      exact ⟨[], rfl, Same.refl m _, by simp, by simp, by simp⟩

/-! ### release after a batch -/

theorem sinv_release (m : Mon S) (hm : m.CommLaws) (le : K → K → Bool) (hle : TotalPreorder le)
    (prim : K → P) (vle : P → P → Bool) (hv : TotalPreorder vle)
    (ks : List K) (hf : ∀ a ∈ ks, ∀ b ∈ ks, eqv le a b = true → a = b)
    (st : SSGB K S P) (xs ys : List (K × S)) (hxs : ∀ k ∈ xs.map (·.1), k ∈ ks)
    (h : SInv m le prim vle st xs ys) :
    SInv m le prim vle (ssRelease m le prim vle st) xs ys := by
  unfold ssRelease
  by_cases hsp : st.spilled = true
  · rw [if_pos hsp]
    cases hms : st.maxSpill with
    | none => exact h
    | some ms =>
      simp only []
      have hpk : ∀ r ∈ st.pending, r.1 ∈ ks := by
        intro r hr
        apply hxs
        apply (h.same.1 r.1).1
        rw [List.map_append, List.map_append]
        exact List.mem_append_left _ (List.mem_append_right _ (List.mem_map.2 ⟨r, hr, rfl⟩))
      obtain ⟨pre, hpre, hs, hn, hlt, hdis⟩ := relSpill_none m hm.toLaws le hle prim vle ms ks hf
        st.pending h.pendSorted hpk
      generalize relSpill m le prim vle ms none st.pending = res at hpre hs hn hlt hdis ⊢
      have hEsub : ∀ k, k ∈ res.1.map (·.1) → k ∈ st.pending.map (·.1) := by
        intro k hk
        rw [hpre, List.map_append]
        exact List.mem_append_left _ ((hs.1 k).1 hk)
      have hRsub : ∀ k, k ∈ res.2.map (·.1) → k ∈ st.pending.map (·.1) := by
        intro k hk
        rw [hpre, List.map_append]
        exact List.mem_append_right _ hk
      refine { same := ?_, outNodup := ?_, tabNodup := h.tabNodup, outPend := ?_, outTab := ?_,
               pendSorted := ?_, unspilled := ?_, sorted := h.sorted, past := ?_,
               gvge := h.gvge, mkle := h.mkle, tabYs := h.tabYs,
               msTab := fun q hq => h.msTab q (hms.trans hq),
               msYs := fun q hq => h.msYs q (hms.trans hq) }
      · show Same m (st.out ++ res.1 ++ res.2 ++ tableRows st.table) xs
        refine Same.trans ?_ h.same
        refine Same.append hm.toLaws ?_ (Same.refl m _)
        rw [List.append_assoc]
        refine Same.append hm.toLaws (Same.refl m _) ?_
        have : Same m (res.1 ++ res.2) (pre ++ res.2) :=
          Same.append hm.toLaws hs (Same.refl m _)
        rw [← hpre] at this
        exact this
      · show ((st.out ++ res.1).map (·.1)).Nodup
        rw [List.map_append]
        refine List.nodup_append.2 ⟨h.outNodup, hn, ?_⟩
        intro a ha b hb e
        exact h.outPend a ha (e ▸ hEsub b hb)
      · intro k hk
        change k ∈ (st.out ++ res.1).map (·.1) at hk
        show k ∉ res.2.map (·.1)
        rw [List.map_append, List.mem_append] at hk
        rcases hk with hk | hk
        · exact fun hin => h.outPend k hk (hRsub k hin)
        · exact hdis k hk
      · intro k hk
        change k ∈ (st.out ++ res.1).map (·.1) at hk
        rw [List.map_append, List.mem_append] at hk
        rcases hk with hk | hk
        · exact h.outTab k hk
        · intro hin
          obtain ⟨r0, h0, e⟩ := List.mem_map.1 hin
          have h1 := h.msTab ms hms r0 h0
          simp only [e] at h1
          exact ltOf_not_le vle (hlt k hk) h1
      · show res.2.Pairwise (fun a b => rowLe le a b = true)
        have hps := h.pendSorted
        rw [hpre] at hps
        exact (List.pairwise_append.1 hps).2.1
      · intro hfalse
        change st.spilled = false at hfalse
        rw [hsp] at hfalse
        cases hfalse
      · intro k hk y hy
        change k ∈ (st.out ++ res.1).map (·.1) at hk
        rw [List.map_append, List.mem_append] at hk
        rcases hk with hk | hk
        · exact h.past k hk y hy
        · exact ltOf_le_trans vle hv (hlt k hk) (h.msYs ms hms y hy)
  · rw [if_neg hsp]
    have hsp' : st.spilled = false := by
      cases hb : st.spilled
      · rfl
      · exact absurd hb hsp
    obtain ⟨hpend, hmsn⟩ := h.unspilled hsp'
    cases hmk : st.maxKey with
    | none => exact h
    | some mk =>
      simp only []
      have hsplit := filter_split_perm (fun r : SRow K S P => ltOf vle r.gv mk) st.table
      have hnd : ((st.table.filter (fun r => ltOf vle r.gv mk)).map (·.key) ++
          (st.table.filter (fun r => !ltOf vle r.gv mk)).map (·.key)).Nodup := by
        rw [← List.map_append]
        exact (hsplit.map (·.key)).nodup_iff.2 h.tabNodup
      have hnd' := List.nodup_append.1 hnd
      have hsub1 : ∀ r, r ∈ st.table.filter (fun r => ltOf vle r.gv mk) → r ∈ st.table :=
        fun r hr => (List.mem_filter.1 hr).1
      have hsub2 : ∀ r, r ∈ st.table.filter (fun r => !ltOf vle r.gv mk) → r ∈ st.table :=
        fun r hr => (List.mem_filter.1 hr).1
      have hksub1 : ∀ k, k ∈ (st.table.filter (fun r => ltOf vle r.gv mk)).map (·.key) →
          k ∈ st.table.map (·.key) := by
        intro k hk
        obtain ⟨r, hr, e⟩ := List.mem_map.1 hk
        exact List.mem_map.2 ⟨r, hsub1 r hr, e⟩
      have hksub2 : ∀ k, k ∈ (st.table.filter (fun r => !ltOf vle r.gv mk)).map (·.key) →
          k ∈ st.table.map (·.key) := by
        intro k hk
        obtain ⟨r, hr, e⟩ := List.mem_map.1 hk
        exact List.mem_map.2 ⟨r, hsub2 r hr, e⟩
      refine { same := ?_, outNodup := ?_, tabNodup := hnd'.2.1, outPend := ?_, outTab := ?_,
               pendSorted := h.pendSorted, unspilled := fun _ => ⟨hpend, hmsn⟩,
               sorted := h.sorted, past := ?_,
               gvge := fun r hr => h.gvge r (hsub2 r hr), mkle := ?_,
               tabYs := fun r hr => h.tabYs r (hsub2 r hr),
               msTab := fun ms hms r hr => h.msTab ms hms r (hsub2 r hr),
               msYs := h.msYs }
      · show Same m (st.out ++ tableRows (st.table.filter fun r => ltOf vle r.gv mk) ++ st.pending
          ++ tableRows (st.table.filter fun r => !ltOf vle r.gv mk)) xs
        refine Same.trans (Same.of_perm hm ?_) h.same
        rw [hpend, List.append_nil, List.append_nil]
        simp only [tableRows, List.append_assoc, ← List.map_append]
        exact List.Perm.append_left _ (hsplit.map _)
      · show ((st.out ++ tableRows (st.table.filter fun r => ltOf vle r.gv mk)).map (·.1)).Nodup
        rw [List.map_append, keys_tableRows]
        refine List.nodup_append.2 ⟨h.outNodup, hnd'.1, ?_⟩
        intro a ha b hb e
        exact h.outTab a ha (e ▸ hksub1 b hb)
      · intro k _
        show k ∉ st.pending.map (·.1)
        rw [hpend]
        simp
      · intro k hk
        change k ∈ (st.out ++ tableRows (st.table.filter fun r => ltOf vle r.gv mk)).map (·.1) at hk
        show k ∉ (st.table.filter fun r => !ltOf vle r.gv mk).map (·.key)
        rw [List.map_append, keys_tableRows, List.mem_append] at hk
        rcases hk with hk | hk
        · exact fun hin => h.outTab k hk (hksub2 k hin)
        · exact fun hin => hnd'.2.2 k hk k hin rfl
      · intro k hk y hy
        change k ∈ (st.out ++ tableRows (st.table.filter fun r => ltOf vle r.gv mk)).map (·.1) at hk
        rw [List.map_append, keys_tableRows, List.mem_append] at hk
        rcases hk with hk | hk
        · exact h.past k hk y hy
        · obtain ⟨r, hr, e⟩ := List.mem_map.1 hk
          obtain ⟨hr1, hr2⟩ := List.mem_filter.1 hr
          rw [← e]
          exact ltOf_le_trans vle hv (le_ltOf_trans vle hv (h.gvge r hr1) hr2) (h.mkle mk hmk y hy)
      · intro mk' hmk'
        exact h.mkle mk' (hmk.symm ▸ hmk')

theorem sinv_batch (m : Mon S) (hm : m.CommLaws) (le : K → K → Bool) (hle : TotalPreorder le)
    (prim : K → P) (vle : P → P → Bool) (hv : TotalPreorder vle)
    (pick : List (K × S) → Option (K × S)) (hpick : ∀ l x, pick l = some x → x ∈ l)
    (limit : Nat) (ks : List K) (hf : ∀ a ∈ ks, ∀ b ∈ ks, eqv le a b = true → a = b)
    (b : List (K × S)) (st : SSGB K S P) (xs ys : List (K × S))
    (hxs : ∀ k ∈ (xs ++ b).map (·.1), k ∈ ks)
    (h : SInv m le prim vle st xs (b ++ ys)) :
    SInv m le prim vle (ssBatch m le prim vle pick limit st b) (xs ++ b) ys :=
  sinv_release m hm le hle prim vle hv ks hf _ _ _ hxs
    (sinv_foldl m hm le hle prim vle hv pick hpick limit b st xs ys h)

theorem sinv_batches (m : Mon S) (hm : m.CommLaws) (le : K → K → Bool) (hle : TotalPreorder le)
    (prim : K → P) (vle : P → P → Bool) (hv : TotalPreorder vle)
    (pick : List (K × S) → Option (K × S)) (hpick : ∀ l x, pick l = some x → x ∈ l)
    (limit : Nat) (ks : List K) (hf : ∀ a ∈ ks, ∀ b ∈ ks, eqv le a b = true → a = b)
    (bs : List (List (K × S))) (st : SSGB K S P) (xs : List (K × S))
    (hxs : ∀ k ∈ (xs ++ bs.flatten).map (·.1), k ∈ ks)
    (h : SInv m le prim vle st xs bs.flatten) :
    SInv m le prim vle (bs.foldl (ssBatch m le prim vle pick limit) st) (xs ++ bs.flatten) [] := by
  induction bs generalizing st xs with
  | nil => simpa using h
  | cons b bs ih =>
    rw [List.flatten_cons] at h hxs
    rw [← List.append_assoc] at hxs
    have hxs' : ∀ k ∈ (xs ++ b).map (·.1), k ∈ ks := by
      intro k hk
      apply hxs
      rw [List.map_append]
      exact List.mem_append_left _ hk
    have := ih (ssBatch m le prim vle pick limit st b) (xs ++ b) hxs
      (sinv_batch m hm le hle prim vle hv pick hpick limit ks hf b st xs bs.flatten hxs' h)
    simpa [List.append_assoc] using this

/-! ### main theorem -/

/-- For every batching, every table limit and every choice `pick` of the row maxSpillKey is taken from:
    if the input is sorted on the primary key, the full-key comparator refines the primary order, and it
    identifies only identical keys among the keys present, then the output has exactly one row per
    distinct key, holding the aggregate of exactly that key's rows. -/
theorem sorted_spill_release_safe (m : Mon S) (hm : m.CommLaws)
    (le : K → K → Bool) (hle : TotalPreorder le)
    (prim : K → P) (vle : P → P → Bool) (hv : TotalPreorder vle)
    (hprim : ∀ a b, le a b = true → vle (prim a) (prim b) = true)
    (pick : List (K × S) → Option (K × S)) (hpick : ∀ l x, pick l = some x → x ∈ l)
    (limit : Nat) (batches : List (List (K × S)))
    (hsorted : batches.flatten.Pairwise (fun a b => vle (prim a.1) (prim b.1) = true))
    (hfaith : Zed.Proofs.AggGroupby.CompareFaithful le batches.flatten) :
    GroupsAgree m (groupbySortedSpill m le prim vle pick limit batches) batches.flatten := by
  have _ := hprim
  have h := sinv_batches m hm le hle prim vle hv pick hpick limit
    (batches.flatten.map (fun x : K × S => x.1)) hfaith batches {} []
    (by intro k hk; rw [List.nil_append] at hk; exact hk)
    (sinv_init m le prim vle _ hsorted)
  rw [List.nil_append] at h
  unfold groupbySortedSpill ssFinish
  generalize batches.foldl (ssBatch m le prim vle pick limit) {} = st at h
  by_cases hsp : st.spilled = true
  · rw [if_pos hsp]
    have hperm : (isort (rowLe le) (st.pending ++ isort (rowLe le) (tableRows st.table))).Perm
        (st.pending ++ tableRows st.table) :=
      (isort_perm _ _).trans (List.Perm.append_left _ (isort_perm _ _))
    have hkeys : ∀ k, k ∈ (isort (rowLe le)
        (st.pending ++ isort (rowLe le) (tableRows st.table))).map (·.1) ↔
        (k ∈ st.pending.map (·.1) ∨ k ∈ st.table.map (·.key)) := by
      intro k
      rw [(hperm.map (fun x : K × S => x.1)).mem_iff, List.map_append, List.mem_append,
        keys_tableRows]
    obtain ⟨hn, hs⟩ := regroup_none m hm.toLaws le hle
      (batches.flatten.map (fun x : K × S => x.1)) hfaith
      (isort (rowLe le) (st.pending ++ isort (rowLe le) (tableRows st.table)))
      (isort_sorted _ (rowLe_totalPreorder hle) _)
      (by
        intro r hr
        apply (h.same.1 r.1).1
        have := (hkeys r.1).1 (List.mem_map.2 ⟨r, hr, rfl⟩)
        rw [List.map_append, List.map_append, List.mem_append, List.mem_append, keys_tableRows]
        rcases this with h1 | h1
        · exact Or.inl (Or.inr h1)
        · exact Or.inr h1)
    refine agree_of_same m hm.toLaws ?_ ?_
    · rw [List.map_append]
      refine List.nodup_append.2 ⟨h.outNodup, hn, ?_⟩
      intro a ha b hb e
      subst e
      rcases (hkeys a).1 ((hs.1 a).1 hb) with h1 | h1
      · exact h.outPend a ha h1
      · exact h.outTab a ha h1
    · refine Same.trans ?_ h.same
      rw [List.append_assoc]
      exact Same.append hm.toLaws (Same.refl m _) (hs.trans (Same.of_perm hm hperm))
  · rw [if_neg hsp]
    have hsp' : st.spilled = false := by
      cases hb : st.spilled
      · rfl
      · exact absurd hb hsp
    obtain ⟨hpend, _⟩ := h.unspilled hsp'
    have hsame := h.same
    rw [hpend, List.append_nil] at hsame
    refine agree_of_same m hm.toLaws ?_ hsame
    rw [List.map_append, keys_tableRows]
    refine List.nodup_append.2 ⟨h.outNodup, h.tabNodup, ?_⟩
    intro a ha b hb e
    subst e
    exact h.outTab a ha hb

/-! ### non-vacuity -/

section Examples

/-- lexicographic `≤` on two-component keys -/
def lexLe : Nat × Nat → Nat × Nat → Bool :=
  fun a b => decide (a.1 < b.1) || (decide (a.1 = b.1) && decide (a.2 ≤ b.2))

theorem lexLe_totalPreorder : TotalPreorder lexLe :=
  ⟨fun a b => by
     simp only [lexLe, Bool.or_eq_true, Bool.and_eq_true, decide_eq_true_eq]; omega,
   fun a b c => by
     simp only [lexLe, Bool.or_eq_true, Bool.and_eq_true, decide_eq_true_eq]; omega⟩

theorem lexLe_prim (a b : Nat × Nat) (h : lexLe a b = true) : natLe a.1 b.1 = true := by
  simp only [lexLe, natLe, Bool.or_eq_true, Bool.and_eq_true, decide_eq_true_eq] at h ⊢
  omega

/-- the lexicographic order is faithful on every input -/
theorem lexLe_faithful (rows : List ((Nat × Nat) × Nat)) : CompareFaithful lexLe rows := by
  intro a _ b _ h
  simp only [eqv, lexLe, Bool.or_eq_true, Bool.and_eq_true, decide_eq_true_eq] at h
  apply Prod.ext <;> omega

/-- sorted on the first key component; keys (2,1) and (3,1) span batch boundaries -/
def exBatches : List (List ((Nat × Nat) × Nat)) :=
  [[((1, 1), 1), ((1, 2), 1), ((2, 1), 1)],
   [((2, 1), 1), ((3, 1), 1), ((3, 2), 1)],
   [((3, 1), 5), ((4, 1), 1)]]

/-- the table (limit 2) spills during the input … -/
example : ssSpilled addMon lexLe (·.1) natLe List.getLast? 2 exBatches = true := by decide

/-- … already in the first batch … -/
example : ssSpilled addMon lexLe (·.1) natLe List.getLast? 2 (exBatches.take 1) = true := by
  decide

/-- … groups are released early from the spill stream (after two batches: everything with
    primary key below maxSpillKey = 3; key (2,1) was spread over two runs and the table) … -/
example : ((exBatches.take 2).foldl (ssBatch addMon lexLe (·.1) natLe List.getLast? 2) {}).out
    = [((1, 1), 1), ((1, 2), 1), ((2, 1), 2)] := by decide

example : ((exBatches.take 2).foldl (ssBatch addMon lexLe (·.1) natLe List.getLast? 2) {}).pending
    = [((3, 1), 1)] := by decide

/-- … and the final output is as expected -/
example : groupbySortedSpill addMon lexLe (·.1) natLe List.getLast? 2 exBatches
    = [((1, 1), 1), ((1, 2), 1), ((2, 1), 2), ((3, 1), 6), ((3, 2), 1), ((4, 1), 1)] := by decide

/-- the theorem applies to the example, all hypotheses discharged -/
example : GroupsAgree addMon
    (groupbySortedSpill addMon lexLe (·.1) natLe List.getLast? 2 exBatches) exBatches.flatten :=
  sorted_spill_release_safe addMon addMon_commLaws lexLe lexLe_totalPreorder (·.1) natLe
    natLe_totalPreorder lexLe_prim List.getLast? (fun _ _ h => List.mem_of_getLast? h) 2
    exBatches (by decide) (lexLe_faithful _)

/-! ### the hypothesis `hsorted` is needed -/

/-- NOT sorted on the first key component: key (1,1) comes back after the spill of (1,1), (2,1)
    set maxSpillKey = 2 and released (1,1) from the spill stream -/
def badBatches : List (List ((Nat × Nat) × Nat)) :=
  [[((1, 1), 1), ((2, 1), 1), ((3, 1), 1)], [((1, 1), 1)]]

example : ¬ badBatches.flatten.Pairwise (fun a b => natLe a.1.1 b.1.1 = true) := by decide

example : groupbySortedSpill addMon lexLe (·.1) natLe List.getLast? 2 badBatches
    = [((1, 1), 1), ((1, 1), 1), ((2, 1), 1), ((3, 1), 1)] := by decide

/-- on unsorted input the early release from the spill stream emits a key twice (all other
    hypotheses of `sorted_spill_release_safe` hold for this instance) -/
theorem not_sorted_spill_release_safe_unsorted :
    ¬ GroupsAgree addMon
      (groupbySortedSpill addMon lexLe (·.1) natLe List.getLast? 2 badBatches)
      badBatches.flatten := by
  intro h
  have hn := h.nodup
  revert hn
  decide

/-- the same without any spill (release from the table), limit 10 -/
example : ¬ GroupsAgree addMon
    (groupbySortedSpill addMon lexLe (·.1) natLe List.getLast? 10
      [[((1, 1), 1), ((2, 1), 1)], [((1, 1), 1), ((1, 2), 1)]])
    [((1, 1), 1), ((2, 1), 1), ((1, 1), 1), ((1, 2), 1)] := by
  intro h
  have hn := h.nodup
  revert hn
  decide

end Examples

end Zed.Proofs.AggSortedSpill
