import Zed.Model.CompareTypes
import Zed.Proofs.Order
/-!
  Order lemmas for `cmpTy` (`zed.CompareTypes`): reflexive and antisymmetric on all types; a
  total order (zero only on equal types, transitive) on types satisfying `nnn`.
-/
namespace Zed
open Zed.Ord

/-! ### bytes and name lists -/

theorem cmpBytes_refl (a : Bytes) : cmpBytes a a = .eq := by
  induction a with
  | nil => rfl
  | cons x xs ih => simp [cmpBytes, ih, Ordering.then]

theorem cmpBytes_swap (a b : Bytes) : cmpBytes b a = (cmpBytes a b).swap := by
  induction a generalizing b with
  | nil => cases b <;> rfl
  | cons x xs ih =>
    cases b with
    | nil => rfl
    | cons y ys => simp [cmpBytes, ih ys, Ordering.swap_then, compare_nat_swap x.toNat y.toNat]

theorem cmpBytes_eq_iff (a b : Bytes) : cmpBytes a b = .eq ↔ a = b := by
  induction a generalizing b with
  | nil => cases b <;> simp [cmpBytes]
  | cons x xs ih =>
    cases b with
    | nil => simp [cmpBytes]
    | cons y ys =>
      simp only [cmpBytes, Ordering.then_eq_eq, Nat.compare_eq_eq, ih ys, List.cons.injEq]
      constructor
      · rintro ⟨h1, h2⟩; exact ⟨UInt8.toNat_inj.mp h1, h2⟩
      · rintro ⟨h1, h2⟩; exact ⟨by rw [h1], h2⟩

theorem cmpBytes_STr (a b c : Bytes) : STr (cmpBytes a b) (cmpBytes b c) (cmpBytes a c) := by
  induction a generalizing b c with
  | nil =>
    cases b with
    | nil => cases c <;> simp [cmpBytes, STr]
    | cons y ys =>
      cases c with
      | nil => simp [cmpBytes, STr]
      | cons z zs => simp only [cmpBytes]; cases (compare y.toNat z.toNat).then (cmpBytes ys zs) <;> simp [STr]
  | cons x xs ih =>
    cases b with
    | nil => cases c <;> simp [cmpBytes, STr]
    | cons y ys =>
      cases c with
      | nil => simp only [cmpBytes]; cases (compare x.toNat y.toNat).then (cmpBytes xs ys) <;> simp [STr]
      | cons z zs =>
        simp only [cmpBytes]
        exact STr.then (STr_compare_nat _ _ _) (fun _ _ => ih ys zs)

theorem cmpNames_refl (a : List Name) : cmpNames a a = .eq := by
  induction a with
  | nil => rfl
  | cons x xs ih => simp [cmpNames, ih, cmpBytes_refl, Ordering.then]

theorem cmpNames_swap (a b : List Name) : cmpNames b a = (cmpNames a b).swap := by
  induction a generalizing b with
  | nil => cases b <;> rfl
  | cons x xs ih =>
    cases b with
    | nil => rfl
    | cons y ys => simp [cmpNames, ih ys, Ordering.swap_then, cmpBytes_swap x y]

theorem cmpNames_eq_iff (a b : List Name) (h : a.length = b.length) : cmpNames a b = .eq ↔ a = b := by
  induction a generalizing b with
  | nil => cases b <;> simp_all [cmpNames]
  | cons x xs ih =>
    cases b with
    | nil => simp at h
    | cons y ys =>
      simp only [List.length_cons, Nat.add_right_cancel_iff] at h
      simp [cmpNames, Ordering.then_eq_eq, cmpBytes_eq_iff, ih ys h]

theorem cmpNames_STr (a b c : List Name) (h1 : a.length = b.length) (h2 : b.length = c.length) :
    STr (cmpNames a b) (cmpNames b c) (cmpNames a c) := by
  induction a generalizing b c with
  | nil => cases b <;> cases c <;> simp_all [cmpNames, STr]
  | cons x xs ih =>
    cases b with
    | nil => simp at h1
    | cons y ys =>
      cases c with
      | nil => simp at h2
      | cons z zs =>
        simp only [List.length_cons, Nat.add_right_cancel_iff] at h1 h2
        simp only [cmpNames]
        exact STr.then (cmpBytes_STr _ _ _) (fun _ _ => ih ys zs h1 h2)

theorem cmpFieldNames_eq : (fs gs : Fields) → cmpFieldNames fs gs = cmpNames fs.names gs.names
  | .nil, .nil => rfl
  | .nil, .cons _ _ _ => rfl
  | .cons _ _ _, .nil => rfl
  | .cons n _ r, .cons m _ s => by simp [cmpFieldNames, cmpNames, Fields.names, cmpFieldNames_eq r s]

theorem Fields.names_length : (fs : Fields) → fs.names.length = fs.length
  | .nil => rfl
  | .cons _ _ r => by simp [Fields.names, Fields.length, Fields.names_length r]

/-! ### `under`, rank -/

theorem Ty.under_not_named : (t : Ty) → t.under.isNamed = false
  | .named _ x => by simpa [Ty.under] using Ty.under_not_named x
  | .prim _ | .record _ | .array _ | .set _ | .map _ _ | .union _ | .enum _ | .error _ => rfl

theorem Ty.under_under : (t : Ty) → t.under.under = t.under
  | .named _ x => by simpa [Ty.under] using Ty.under_under x
  | .prim _ | .record _ | .array _ | .set _ | .map _ _ | .union _ | .enum _ | .error _ => rfl

theorem Ty.under_of_not_named {t : Ty} (h : t.isNamed = false) : t.under = t := by
  cases t <;> simp_all [Ty.under, Ty.isNamed]

/-- the names of a type from the outside in -/
def Ty.chain : Ty → List Name
  | .named n x => n :: x.chain
  | _ => []

/-- lexicographic on name chains; a proper prefix (fewer names) is smaller -/
def cmpChain : List Name → List Name → Ordering
  | [], [] => .eq
  | [], _ :: _ => .lt
  | _ :: _, [] => .gt
  | n :: r, m :: s => (cmpBytes n m).then (cmpChain r s)

theorem cmpRank_eq : (a b : Ty) → cmpRank a b = cmpChain a.chain b.chain
  | .named n x, .named m y => by simp only [cmpRank, Ty.chain, cmpChain]; rw [cmpRank_eq x y]
  | .named _ _, .prim _ | .named _ _, .record _ | .named _ _, .array _ | .named _ _, .set _
  | .named _ _, .map _ _ | .named _ _, .union _ | .named _ _, .enum _ | .named _ _, .error _ => rfl
  | .prim _, b | .record _, b | .array _, b | .set _, b | .map _ _, b | .union _, b | .enum _, b | .error _, b => by
    cases b <;> rfl

theorem cmpChain_refl : (a : List Name) → cmpChain a a = .eq
  | [] => rfl
  | n :: r => by simp [cmpChain, cmpBytes_refl, cmpChain_refl r, Ordering.then]

theorem cmpChain_swap : (a b : List Name) → cmpChain b a = (cmpChain a b).swap
  | [], [] => rfl
  | [], _ :: _ => rfl
  | _ :: _, [] => rfl
  | n :: r, m :: s => by simp only [cmpChain, Ordering.swap_then]; rw [cmpBytes_swap n m, cmpChain_swap r s]

theorem cmpChain_eq_iff : (a b : List Name) → (cmpChain a b = .eq ↔ a = b)
  | [], [] => by simp [cmpChain]
  | [], _ :: _ => by simp [cmpChain]
  | _ :: _, [] => by simp [cmpChain]
  | n :: r, m :: s => by simp [cmpChain, Ordering.then_eq_eq, cmpBytes_eq_iff, cmpChain_eq_iff r s]

theorem cmpChain_STr : (a b c : List Name) → STr (cmpChain a b) (cmpChain b c) (cmpChain a c)
  | [], [], [] => by simp [cmpChain, STr]
  | [], [], _ :: _ => by simp [cmpChain, STr]
  | [], _ :: _, [] => by simp [cmpChain, STr]
  | [], m :: s, k :: t => by simp only [cmpChain]; cases (cmpBytes m k).then (cmpChain s t) <;> simp [STr]
  | _ :: _, [], [] => by simp [cmpChain, STr]
  | _ :: _, [], _ :: _ => by simp [cmpChain, STr]
  | n :: r, m :: s, [] => by simp only [cmpChain]; cases (cmpBytes n m).then (cmpChain r s) <;> simp [STr]
  | n :: r, m :: s, k :: t => by
    simp only [cmpChain]
    exact STr.then (cmpBytes_STr n m k) (fun _ _ => cmpChain_STr r s t)

theorem cmpRank_refl (a : Ty) : cmpRank a a = .eq := by rw [cmpRank_eq]; exact cmpChain_refl _

theorem cmpRank_swap (a b : Ty) : cmpRank b a = (cmpRank a b).swap := by
  rw [cmpRank_eq, cmpRank_eq]; exact cmpChain_swap _ _

theorem cmpRank_STr (a b c : Ty) : STr (cmpRank a b) (cmpRank b c) (cmpRank a c) := by
  rw [cmpRank_eq, cmpRank_eq, cmpRank_eq]; exact cmpChain_STr _ _ _

/-- a type is determined by its underlying type and its chain of names -/
theorem Ty.eq_of_under_chain : (a b : Ty) → a.under = b.under → a.chain = b.chain → a = b
  | .named n x, .named m y, hu, hc => by
    simp only [Ty.chain, List.cons.injEq] at hc
    simp only [Ty.under] at hu
    rw [hc.1, Ty.eq_of_under_chain x y hu hc.2]
  | .named _ _, .prim _, _, hc | .named _ _, .record _, _, hc | .named _ _, .array _, _, hc
  | .named _ _, .set _, _, hc | .named _ _, .map _ _, _, hc | .named _ _, .union _, _, hc
  | .named _ _, .enum _, _, hc | .named _ _, .error _, _, hc => by simp [Ty.chain] at hc
  | .prim _, b, hu, hc | .record _, b, hu, hc | .array _, b, hu, hc | .set _, b, hu, hc
  | .map _ _, b, hu, hc | .union _, b, hu, hc | .enum _, b, hu, hc | .error _, b, hu, hc => by
    cases b <;> simp [Ty.chain] at hc <;> simpa [Ty.under] using hu

/-! ### `cmpS` only looks at the underlying type of its first argument -/

theorem cmpS_under : (a ub : Ty) → cmpS a ub = cmpS a.under ub
  | .named _ x, ub => by simp [cmpS, Ty.under, cmpS_under x ub]
  | .prim _, _ | .record _, _ | .array _, _ | .set _, _ | .map _ _, _ | .union _, _ | .enum _, _ | .error _, _ => rfl

theorem cmpTy_def (a b : Ty) :
    cmpTy a b = if a.under = b.under then cmpRank a b else cmpS a.under b.under := by
  unfold cmpTy cmpCombine
  rw [cmpS_under]

theorem cmpTy_refl (a : Ty) : cmpTy a a = .eq := by
  simp [cmpTy_def, cmpRank_refl]

end Zed
