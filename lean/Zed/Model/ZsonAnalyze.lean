import Zed.Model.ZsonTy
/-!
  C02 — the ZSON analyzer (`zson/analyzer.go`) followed by `zson.Build` (`zson/builder.go`)
  as a function from abstract syntax (+ optional enclosing type, + the name table) to a typed
  value.  Mirrors `convertValue / convertAny / convertPrimitive / stringToEnum / castType /
  convertRecord / convertArray / convertSet / convertMap / convertUnion / convertEnum /
  convertError / convertTypeValue / convertType / enterTypeDef / normalizeElems / typeCheck`
  and `buildEnum` (the one `Build` step that can fail on analyzer output).

  What is *not* computed here: `BuildPrimitive`'s text → bytes conversion (primitives stay
  text), NFC normalisation of strings, and `NormalizeSet/NormalizeMap` (identity on the
  normalised bodies the round trip starts from).  `zed.CompareTypes` — the order in which
  `LookupTypeUnion` / `UniqueTypes` arrange union members — depends on context ids for named
  types; the model uses its own structural total order `tyCmp`, and every comparison with
  the real code treats union members as a set.
-/
namespace Zed.Zson
open Generated

inductive Err where
  | noSuchType | noSuchPrimitive | typeMismatch | decoratorConflict | notInUnion
  | enumNeedsDecorator | enumIncompatible | enumNotMember | enumNotEnumType
  | badDecorator | fieldCount | dupField | emptyEnum | badTypeName | nilAny | typeValueCast
  deriving DecidableEq, Repr

structure AState where
  names : List (Name × Ty) := []     -- the Analyzer map
  ctxdefs : List (Name × Ty) := []   -- zed.Context.typedefs (LookupTypeDef / LookupTypeNamed)
  deriving DecidableEq, Repr

def alookup (n : Name) : List (Name × Ty) → Option Ty
  | [] => none
  | (m, t) :: r => if m = n then some t else alookup n r

/-! ### the model's total order on types (stands for `zed.CompareTypes`) -/

def bytesCmp : Bytes → Bytes → Ordering
  | [], [] => .eq
  | [], _ :: _ => .lt
  | _ :: _, [] => .gt
  | a :: as, b :: bs => if a < b then .lt else if b < a then .gt else bytesCmp as bs

def namesCmp : List Name → List Name → Ordering
  | [], [] => .eq
  | [], _ :: _ => .lt
  | _ :: _, [] => .gt
  | a :: as, b :: bs => match bytesCmp a b with
    | .eq => namesCmp as bs
    | o => o

def Ty.rank : Ty → Nat
  | .prim _ => 0 | .record _ => 1 | .array _ => 2 | .set _ => 3 | .map _ _ => 4
  | .union _ => 5 | .enum _ => 6 | .error _ => 7 | .named _ _ => 8

mutual
def tyCmp : Ty → Ty → Ordering
  | .prim a, .prim b => compare a b
  | .record a, .record b => fieldsCmp a b
  | .array a, .array b => tyCmp a b
  | .set a, .set b => tyCmp a b
  | .map a1 a2, .map b1 b2 => match tyCmp a1 b1 with
    | .eq => tyCmp a2 b2
    | o => o
  | .union a, .union b => tysCmp a b
  | .enum a, .enum b => namesCmp a b
  | .error a, .error b => tyCmp a b
  | .named n a, .named m b => match bytesCmp n m with
    | .eq => tyCmp a b
    | o => o
  | a, b => compare a.rank b.rank
def fieldsCmp : Fields → Fields → Ordering
  | .nil, .nil => .eq
  | .nil, .cons _ _ _ => .lt
  | .cons _ _ _, .nil => .gt
  | .cons n a r, .cons m b s => match bytesCmp n m with
    | .eq => match tyCmp a b with
      | .eq => fieldsCmp r s
      | o => o
    | o => o
def tysCmp : Tys → Tys → Ordering
  | .nil, .nil => .eq
  | .nil, .cons _ _ => .lt
  | .cons _ _, .nil => .gt
  | .cons a r, .cons b s => match tyCmp a b with
    | .eq => tysCmp r s
    | o => o
end

/-- insert into a `tyCmp`-sorted list, dropping an exact duplicate. -/
def insertUniq (x : Ty) : List Ty → List Ty
  | [] => [x]
  | y :: ys =>
    if x = y then y :: ys
    else if tyCmp x y = .lt then x :: y :: ys
    else y :: insertUniq x ys

/-- insert into a `tyCmp`-sorted list, keeping duplicates (stable). -/
def insertDup (x : Ty) : List Ty → List Ty
  | [] => [x]
  | y :: ys => if tyCmp x y = .lt then x :: y :: ys else y :: insertDup x ys

/-- `zed.UniqueTypes` minus `null` (as used by `normalizeElems`). -/
def uniqueTypes (ts : List Ty) : List Ty :=
  (ts.filter (· != tyNull)).foldl (fun acc t => insertUniq t acc) []

/-- `Context.LookupTypeUnion`: members sorted, duplicates kept. -/
def lookupUnion (ts : List Ty) : Ty :=
  .union (Tys.ofList (ts.foldr insertDup []))

/-! ### helpers -/

def isDigitB (b : UInt8) : Bool := 48 ≤ b.toNat && b.toNat ≤ 57
/-- `isNumeric` of analyzer.go (true on the empty string). -/
def isNumeric (n : Name) : Bool := n.all isDigitB

/-- `castType`, over the regenerated id bounds. -/
def castOk (typID castID : Nat) : Bool :=
  let isInt (id : Nat) := decide (id ≤ C02.idInt256)
  let isFloat (id : Nat) := decide (C02.idFloat16 ≤ id ∧ id ≤ C02.idFloat256)
  typID == castID || typID == C02.idNull || (isInt typID && (isInt castID || isFloat castID))
    || (isFloat typID && isFloat castID)

/-! The typed-value tree of the real analyzer carries a type at every node, but `Build`
    reads it only for primitives, enums and the (already computed) union tags: the bytes of a
    container are structural.  The analyzer model therefore produces *raw* values without
    `named` wrappers, and `wrapAll` puts the wrappers back according to the final type. -/
def Vals.mapV (f : Val → Val) : Vals → Vals
  | .nil => .nil
  | .cons v r => .cons (f v) (Vals.mapV f r)
def Entries.mapKV (f g : Val → Val) : Entries → Entries
  | .nil => .nil
  | .cons k v r => .cons (f k) (g v) (Entries.mapKV f g r)

mutual
def wrapAll : Ty → Val → Val
  | .named _ u, v => match v with
    | .null => .null
    | v => .named (wrapAll u v)
  | .record fs, .record vs => .record (wrapFields fs vs)
  | .array t, .array vs => .array (vs.mapV (wrapAll t))
  | .set t, .set vs => .set (vs.mapV (wrapAll t))
  | .map k v, .map es => .map (es.mapKV (wrapAll k) (wrapAll v))
  | .union ts, .union tag v => .union tag (wrapMember ts tag v)
  | .error t, .error v => .error (wrapAll t v)
  | _, v => v
def wrapFields : Fields → Vals → Vals
  | .cons _ t fr, .cons v vr => .cons (wrapAll t v) (wrapFields fr vr)
  | _, vs => vs
def wrapMember : Tys → Nat → Val → Val
  | .cons t _, 0, v => wrapAll t v
  | .cons _ r, n + 1, v => wrapMember r n v
  | .nil, _, v => v
end

mutual
/-- remove every `named` wrapper. -/
def strip : Val → Val
  | .named v => strip v
  | .record vs => .record (stripVals vs)
  | .array vs => .array (stripVals vs)
  | .set vs => .set (stripVals vs)
  | .map es => .map (stripEntries es)
  | .union tag v => .union tag (strip v)
  | .error v => .error (strip v)
  | v => v
def stripVals : Vals → Vals
  | .nil => .nil
  | .cons v r => .cons (strip v) (stripVals r)
def stripEntries : Entries → Entries
  | .nil => .nil
  | .cons k v r => .cons (strip k) (strip v) (stripEntries r)
end

def Fields.hasDup : Fields → Bool
  | .nil => false
  | .cons n _ r => r.names.contains n || r.hasDup

/-- `Analyzer.enterTypeDef` (+ `Context.LookupTypeNamed`). -/
def enterTypeDef (st : AState) (name : Name) (t : Ty) : Except Err (AState × Option Ty) :=
  if isNumeric name then
    .ok ({ st with names := (name, t) :: st.names }, none)
  else if (lookupPrimitive name).isSome then .error .badTypeName
  else
    let named := Ty.named name t
    .ok ({ names := (name, named) :: st.names, ctxdefs := (name, named) :: st.ctxdefs }, some named)

mutual
def convertType (st : AState) : ATy → Except Err (AState × Ty)
  | .prim n => match lookupPrimitive n with
    | some id => .ok (st, .prim id)
    | none => .error .noSuchPrimitive
  | .def_ n t => do
    let (st1, ty) ← convertType st t
    let (st2, named) ← enterTypeDef st1 n ty
    pure (st2, named.getD ty)
  | .record fs => do
    let (st1, f) ← convertTypeFields st fs
    if f.hasDup then throw .dupField else pure (st1, .record f)
  | .array t => do let (s, ty) ← convertType st t; pure (s, .array ty)
  | .set t => do let (s, ty) ← convertType st t; pure (s, .set ty)
  | .map k v => do
    let (s1, kt) ← convertType st k
    let (s2, vt) ← convertType s1 v
    pure (s2, .map kt vt)
  | .union ts => do
    let (s, tys) ← convertTypeTys st ts
    pure (s, lookupUnion tys)
  | .enum syms => if syms.isEmpty then .error .emptyEnum else .ok (st, .enum syms)
  | .error t => do let (s, ty) ← convertType st t; pure (s, .error ty)
  | .name n => match alookup n st.names with
    | some t => .ok (st, t)
    | none => match alookup n st.ctxdefs with
      | some t => .ok (st, t)
      | none => .error .noSuchType
def convertTypeFields (st : AState) : AFields → Except Err (AState × Fields)
  | .nil => .ok (st, .nil)
  | .cons n t r => do
    let (s1, ty) ← convertType st t
    let (s2, rest) ← convertTypeFields s1 r
    pure (s2, .cons n ty rest)
def convertTypeTys (st : AState) : ATys → Except Err (AState × List Ty)
  | .nil => .ok (st, [])
  | .cons t r => do
    let (s1, ty) ← convertType st t
    let (s2, rest) ← convertTypeTys s1 r
    pure (s2, ty :: rest)
end

abbrev TV := Ty × Val

/-- `Analyzer.convertUnion` (+ `buildUnion`: tag −1 is a null). -/
def convertUnion (tv : TV) (members : Tys) (cast : Ty) : Except Err TV :=
  if tv.1 = tyNull then .ok (cast, .null)
  else match members.indexOf tv.1 with
    | some k => .ok (cast, .union k tv.2)
    | none => .error .notInUnion

def enumSyms : Ty → Option (List Name)
  | .enum syms => some syms
  | _ => none

def unionMembers : Ty → Option Tys
  | .union ts => some ts
  | _ => none

/-- run `run` with the cast, routing through `convertUnion` when the cast is a union. -/
def viaUnion (cast : Option Ty) (run : Option Ty → Except Err (AState × TV)) : Except Err (AState × TV) :=
  match cast with
  | none => run none
  | some c => match unionMembers c.under with
    | some ms => do
      let (st, tv) ← run none
      let r ← convertUnion tv ms c
      pure (st, r)
    | none => run (some c)

/-- `Analyzer.typeCheck`. -/
def typeCheck (cast : Ty) (parent : Option Ty) : Except Err Unit :=
  match parent with
  | none => .ok ()
  | some p => if cast = p then .ok () else if (unionMembers p.under).isSome then .ok () else .error .decoratorConflict

/-- `Analyzer.normalizeElems`. -/
def normalizeElems (tvs : List TV) : Except Err (List Val × Ty) :=
  match uniqueTypes (tvs.map (·.1)) with
  | [t] => .ok (tvs.map (·.2), t)
  | [] => .ok (tvs.map (·.2), tyNull)
  | ts =>
    match lookupUnion ts with
    | .union ms => do
      let vs ← tvs.mapM (fun tv => (convertUnion tv ms (.union ms)).map (·.2))
      pure (vs, .union ms)
    | _ => .error .notInUnion

def enumIndex (syms : List Name) (n : Name) : Option Nat :=
  let i := syms.findIdx (· == n)
  if i < syms.length then some i else none

def fieldTypes : Fields → List Ty
  | .nil => []
  | .cons _ t r => t :: fieldTypes r

def mkFields : List Name → List Ty → Fields
  | n :: ns, t :: ts => .cons n t (mkFields ns ts)
  | _, _ => .nil

def AVFields.names : AVFields → List Name
  | .nil => []
  | .cons n _ r => n :: r.names

def AVFields.length : AVFields → Nat
  | .nil => 0
  | .cons _ _ r => r.length + 1

def entriesOf : List Val → List Val → Entries
  | k :: ks, v :: vs => .cons k v (entriesOf ks vs)
  | _, _ => .nil

/-- the tail of `convertValue`'s `CastValue` case once the decorator type is known:
    `typeCheck`, conversion of the inner value (through `convertUnion` when the decorator is a
    union), and a final `convertUnion` when the enclosing type is a union. -/
def castStep (parent : Option Ty) (castT : Ty) (run : Option Ty → Except Err (AState × TV)) :
    Except Err (AState × TV) := do
  typeCheck castT parent
  let (st3, r) ← match unionMembers castT.under with
    | some ms => do
      let (s, tv) ← run none
      let r ← convertUnion tv ms castT
      pure (s, r)
    | none => run (some castT)
  match parent with
  | some p => match unionMembers p.under with
    | some ms => do let r2 ← convertUnion r ms p; pure (st3, r2)
    | none => pure (st3, r)
  | none => pure (st3, r)

mutual
def convertValue (st : AState) (v : AVal) (parent : Option Ty) : Except Err (AState × TV) :=
  match v with
  | .implied a => viaUnion parent (fun c => convertAny st a c)
  | .def_ a name => do
    let (st1, (t, val)) ← viaUnion parent (fun c => convertAny st a c)
    let (st2, named) ← enterTypeDef st1 name t
    match named with
    | some nt => pure (st2, (nt, val))
    | none => pure (st2, (t, val))
  | .cast of ty => do
    let st1 ← preDefs st of
    let (st2, castT) ← convertType st1 ty
    castStep parent castT (fun p => convertValue st2 of p)
/-- `convertValue`'s `CastValue` prologue: enter the typedefs of the inner decorators first so
    that the outer decorator type can see them. -/
def preDefs (st : AState) (of : AVal) : Except Err AState :=
  match of with
  | .def_ a name => do
    let (s, (t, _)) ← viaUnion none (fun c => convertAny st a c)
    let (s2, _) ← enterTypeDef s name t
    pure s2
  | .cast _ ty2 => do let (s, _) ← convertType st ty2; pure s
  | .implied _ => pure st
/-- `convertAny` *after* its union prologue (which is `viaUnion`). -/
def convertAny (st : AState) (a : AAny) (cast : Option Ty) : Except Err (AState × TV) :=
  match a with
  | .nil => .error .nilAny
  | .prim tyName text =>
    match lookupPrimitive tyName with
    | none => .error .noSuchPrimitive
    | some id =>
      match cast with
      | none => .ok (st, (.prim id, if id = C02.idNull then .null else .prim text))
      | some c =>
        -- stringToEnum: only when the cast *is* an enum type (not a named one)
        match (if tyName = ascii "string" then enumSyms c else none) with
        | some syms =>
          (match enumIndex syms text with
           | some i => .ok (st, (c, .enum i))
           | none => .error .enumNotMember)
        | none =>
          if castOk id c.id then
            .ok (st, (c, if id = C02.idNull then .null else .prim text))
          else .error .typeMismatch
  | .record fs =>
    match cast with
    | some c =>
      match c.under with
      | .record rfs =>
        if rfs.length != fs.length then .error .fieldCount
        else do
          let (st1, tvs) ← convertFields st fs (some (fieldTypes rfs))
          pure (st1, (c, .record (Vals.ofList (tvs.map (·.2)))))
      | _ => .error .badDecorator
    | none => do
      let (st1, tvs) ← convertFields st fs none
      let rt := mkFields fs.names (tvs.map (·.1))
      if rt.hasDup then throw .dupField
      else pure (st1, (.record rt, .record (Vals.ofList (tvs.map (·.2)))))
  | .array vs =>
    match cast with
    | some c =>
      match c.under with
      | .array et => do
        let (st1, tvs) ← convertElems st vs (some et)
        pure (st1, (c, .array (Vals.ofList (tvs.map (·.2)))))
      | _ => .error .badDecorator
    | none => do
      let (st1, tvs) ← convertElems st vs none
      if tvs.isEmpty then pure (st1, (.array tyNull, .array .nil))
      else
        let (elems, inner) ← normalizeElems tvs
        pure (st1, (.array inner, .array (Vals.ofList elems)))
  | .set vs =>
    match cast with
    | some c =>
      match c.under with
      | .set et => do
        let (st1, tvs) ← convertElems st vs (some et)
        pure (st1, (c, .set (Vals.ofList (tvs.map (·.2)))))
      | _ => .error .badDecorator
    | none => do
      let (st1, tvs) ← convertElems st vs none
      if tvs.isEmpty then pure (st1, (.set tyNull, .set .nil))
      else
        let (elems, inner) ← normalizeElems tvs
        pure (st1, (.set inner, .set (Vals.ofList elems)))
  | .map es =>
    match cast with
    | some c =>
      match c.under with
      | .map kt vt => do
        let (st1, ks, vs) ← convertEntries st es (some (kt, vt))
        pure (st1, (c, .map (entriesOf (ks.map (·.2)) (vs.map (·.2)))))
      | _ => .error .badDecorator
    | none => do
      let (st1, ks, vs) ← convertEntries st es none
      if ks.isEmpty then pure (st1, (.map tyNull tyNull, .map .nil))
      else
        let (kvals, kt) ← normalizeElems ks
        let (vvals, vt) ← normalizeElems vs
        pure (st1, (.map kt vt, .map (entriesOf kvals vvals)))
  | .enum name =>
    match cast with
    | none => .error .enumNeedsDecorator
    | some c =>
      match c.under with
      | .enum syms =>
        (match enumIndex syms name with
         | none => .error .enumNotMember
         | some i =>
           -- buildEnum asserts that the value's type *is* an enum type
           match c with
           | .enum _ => .ok (st, (c, .enum i))
           | _ => .error .enumNotEnumType)
      | _ => .error .enumIncompatible
  | .typeval t =>
    match cast with
    | some c =>
      if c.under = tyType then do
        let (st1, ty) ← convertType st t
        pure (st1, (c, .typeval ty))
      else .error .typeValueCast
    | none => do
      let (st1, ty) ← convertType st t
      pure (st1, (tyType, .typeval ty))
  | .error v =>
    match cast with
    | some c =>
      match c.under with
      | .error inner => do
        let (st1, (_, val)) ← convertValue st v (some inner)
        pure (st1, (c, .error val))
      | _ => .error .badDecorator
    | none => do
      let (st1, (t, val)) ← convertValue st v none
      pure (st1, (.error t, .error val))
def convertFields (st : AState) (fs : AVFields) (casts : Option (List Ty)) : Except Err (AState × List TV) :=
  match fs with
  | .nil => .ok (st, [])
  | .cons _ v r => do
    let (c, rest) := match casts with
      | some (c :: cs) => (some c, some cs)
      | _ => (none, none)
    let (st1, tv) ← convertValue st v c
    let (st2, tvs) ← convertFields st1 r rest
    pure (st2, tv :: tvs)
def convertElems (st : AState) (vs : AVals) (cast : Option Ty) : Except Err (AState × List TV) :=
  match vs with
  | .nil => .ok (st, [])
  | .cons v r => do
    let (st1, tv) ← convertValue st v cast
    let (st2, tvs) ← convertElems st1 r cast
    pure (st2, tv :: tvs)
def convertEntries (st : AState) (es : AEntries) (casts : Option (Ty × Ty)) :
    Except Err (AState × List TV × List TV) :=
  match es with
  | .nil => .ok (st, [], [])
  | .cons k v r => do
    let (st1, ktv) ← convertValue st k (casts.map (·.1))
    let (st2, vtv) ← convertValue st1 v (casts.map (·.2))
    let (st3, ks, vs) ← convertEntries st2 r casts
    pure (st3, ktv :: ks, vtv :: vs)
end

/-- `Analyzer.ConvertValue` + `Build`. -/
def analyzeTop (st : AState) (v : AVal) : Except Err (AState × TV) :=
  (convertValue st v none).map fun (s, (t, x)) => (s, (t, wrapAll t x))

/-- `zson.ParseType`'s analysis half. -/
def analyzeType (st : AState) (t : ATy) : Except Err (AState × Ty) := convertType st t

end Zed.Zson
