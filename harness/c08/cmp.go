package main

// Running lake queries at a given parallelism and comparing results under the rules of C08.

import (
	"context"
	"fmt"
	"sort"
	"strconv"
	"strings"
	"time"
	. "verifharness/hlib"

	zed "github.com/brimdata/super"
	"github.com/brimdata/super/compiler"
	"github.com/brimdata/super/runtime"
	"github.com/brimdata/super/zson"
)

type outRec struct {
	Text string
	Tie  string
}

// tieAtom canonicalises one order-key value: numbers by numeric value whatever their type,
// null and missing alike, everything else by ZSON text.
func tieAtom(v *zed.Value) string {
	if v == nil {
		return "null"
	}
	x := v.Under()
	if x.IsNull() || x.IsMissing() {
		return "null"
	}
	id := x.Type().ID()
	switch {
	case zed.IsFloat(id):
		return "n:" + strconv.FormatFloat(x.Float(), 'g', -1, 64)
	case zed.IsUnsigned(id):
		return "n:" + strconv.FormatFloat(float64(x.Uint()), 'g', -1, 64)
	case zed.IsSigned(id) && id != zed.IDDuration && id != zed.IDTime:
		return "n:" + strconv.FormatFloat(float64(x.Int()), 'g', -1, 64)
	}
	return "z:" + zson.FormatValue(x)
}

func derefPath(v zed.Value, path string) *zed.Value {
	if path == "" {
		return &v
	}
	cur := &v
	for _, f := range strings.Split(path, ".") {
		if cur == nil {
			return nil
		}
		u := cur.Under()
		if u.IsNull() {
			return nil
		}
		cur = u.Deref(f)
	}
	return cur
}

// tieOf computes the order key of an output value: the values at the given paths; the
// pseudo-path "@id" stands for the pool-key position of the input record with that id (for
// programs that keep every record's id but destroy its key field).
func tieOf(v zed.Value, paths []string, idPos map[int64]int) string {
	if len(paths) == 0 {
		return ""
	}
	parts := make([]string, len(paths))
	for i, p := range paths {
		if p == "@id" {
			parts[i] = "?"
			if id := derefPath(v, "id"); id != nil && zed.IsSigned(id.Under().Type().ID()) {
				if pos, ok := idPos[id.Under().Int()]; ok {
					parts[i] = "p:" + strconv.Itoa(pos)
				}
			}
			continue
		}
		parts[i] = tieAtom(derefPath(v, p))
	}
	return strings.Join(parts, "\x00")
}

// queryRecs runs q against the lake at the given parallelism, keeping text and tie key of
// every output value.
func queryRecs(l *TLake, q string, par int, tie []string, idPos map[int64]int) (out []outRec, err error, panicked bool) {
	err, panicked = Protect(func() error {
		ctx, cancel := context.WithTimeout(context.Background(), 300*time.Second)
		defer cancel()
		ast, _, err := compiler.Parse(q)
		if err != nil {
			return err
		}
		rctx := runtime.NewContext(ctx, zed.NewContext())
		defer rctx.Cancel()
		query, err := compiler.NewLakeCompiler(l.Root).NewLakeQuery(rctx, ast, par, nil)
		if err != nil {
			return err
		}
		defer query.Pull(true)
		for {
			b, err := query.Pull(false)
			if err != nil {
				return err
			}
			if b == nil {
				return nil
			}
			for _, v := range b.Values() {
				out = append(out, outRec{Text: zson.FormatValue(v), Tie: tieOf(v, tie, idPos)})
			}
			b.Unref()
		}
	})
	return out, err, panicked
}

func texts(rs []outRec) []string {
	out := make([]string, len(rs))
	for i, r := range rs {
		out[i] = r.Text
	}
	return out
}

// canonArrays sorts the elements of every (non-nested) array literal in a ZSON text; the
// generators guarantee no commas or brackets inside strings.  Sets (|[...]|) are left alone.
func canonArrays(s string) string {
	var b strings.Builder
	for {
		i := strings.IndexByte(s, '[')
		if i < 0 {
			b.WriteString(s)
			return b.String()
		}
		j := strings.IndexByte(s[i:], ']')
		if j < 0 || (i > 0 && s[i-1] == '|') {
			if j < 0 {
				b.WriteString(s)
				return b.String()
			}
			b.WriteString(s[:i+j+1])
			s = s[i+j+1:]
			continue
		}
		elems := strings.Split(s[i+1:i+j], ",")
		sort.Strings(elems)
		b.WriteString(s[:i+1])
		b.WriteString(strings.Join(elems, ","))
		b.WriteByte(']')
		s = s[i+j+1:]
	}
}

func canon(rs []outRec, collect bool) []string {
	t := texts(rs)
	if collect {
		for i := range t {
			t[i] = canonArrays(t[i])
		}
	}
	return t
}

func short(xs []string) string {
	s := fmt.Sprint(xs)
	if len(s) > 300 {
		s = s[:300] + "…"
	}
	return s
}

// cmpMultiset: "" if equal as multisets.
func cmpMultiset(ref, out []string) string {
	if SameMultiset(ref, out) {
		return ""
	}
	return fmt.Sprintf("multisets differ: %d values at parallelism 1, %d here; missing=%s extra=%s",
		len(ref), len(out), short(MsDiff(ref, out, 3)), short(MsDiff(out, ref, 3)))
}

func runsOf(rs []outRec) [][]outRec {
	var out [][]outRec
	for i := 0; i < len(rs); {
		j := i + 1
		for j < len(rs) && rs[j].Tie == rs[i].Tie {
			j++
		}
		out = append(out, rs[i:j])
		i = j
	}
	return out
}

// cmpSeqModTies: both sequences split into maximal runs of equal order key must agree run by
// run as multisets.  how = "seq" | "multiset" | "length".
func cmpSeqModTies(ref, out []outRec) (string, string) {
	if len(ref) != len(out) {
		if d := cmpMultiset(texts(ref), texts(out)); d != "" {
			return d, "length"
		}
	}
	a, b := runsOf(ref), runsOf(out)
	for i := 0; i < len(a) && i < len(b); i++ {
		if !SameMultiset(texts(a[i]), texts(b[i])) {
			how := "seq"
			if !SameMultiset(texts(ref), texts(out)) {
				how = "multiset"
			}
			return fmt.Sprintf("order differs at tie-run %d (of %d/%d): parallelism 1 has %s, here %s", i, len(a), len(b), short(texts(a[i])), short(texts(b[i]))), how
		}
	}
	if len(a) != len(b) {
		return fmt.Sprintf("%d tie-runs at parallelism 1, %d here", len(a), len(b)), "seq"
	}
	return "", ""
}

func reversed(rs []outRec) []outRec {
	out := make([]outRec, len(rs))
	for i, r := range rs {
		out[len(rs)-1-i] = r
	}
	return out
}

func subMultiset(sub, super []string) bool {
	return len(MsDiff(sub, super, 1)) == 0
}

// cmpHead: out must be min(n,len(full)) long, and consist of the complete tie-runs of a
// prefix of full plus a sub-multiset of the next tie-run.
func cmpHead(full, out []outRec, n int, tail bool) (string, string) {
	if tail {
		full, out = reversed(full), reversed(out)
	}
	want := n
	if len(full) < want {
		want = len(full)
	}
	if len(out) != want {
		return fmt.Sprintf("got %d values, want min(%d, %d)", len(out), n, len(full)), "length"
	}
	pos := 0
	for i, run := range runsOf(full) {
		if pos >= len(out) {
			break
		}
		end := pos + len(run)
		if end <= len(out) {
			if !SameMultiset(texts(run), texts(out[pos:end])) {
				return fmt.Sprintf("tie-run %d of the full result is %s but the output has %s there", i, short(texts(run)), short(texts(out[pos:end]))), "seq"
			}
		} else {
			if !subMultiset(texts(out[pos:]), texts(run)) {
				return fmt.Sprintf("tie-run %d of the full result is %s; the output ends with %s which is not part of it", i, short(texts(run)), short(texts(out[pos:]))), "seq"
			}
		}
		pos = end
	}
	return "", ""
}

// distinctSet returns the sorted distinct texts.
func distinctSet(xs []string) []string {
	m := map[string]bool{}
	for _, x := range xs {
		m[x] = true
	}
	var out []string
	for x := range m {
		out = append(out, x)
	}
	sort.Strings(out)
	return out
}

func errClass(err error) string {
	if err == nil {
		return "ok"
	}
	s := err.Error()
	if i := strings.IndexAny(s, ":\n"); i > 0 {
		s = s[:i]
	}
	if len(s) > 40 {
		s = s[:40]
	}
	return s
}
