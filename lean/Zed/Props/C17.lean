/-
  C17 — a crash at any storage operation leaves the lake consistent, atomic and usable.
  Property theorems only.  Model: the labelled transition system of DESIGN.md §4 L5
  (Zed/Model/{StoreEngine,JournalQueue,BranchCommit}.lean), atomic puts.

  A crash is a client that is never stepped again; recovery is any set of fresh client ids
  (empty caches).  Because the theorems below hold in *every* reachable state of *every* label
  sequence, they hold after any number of crashes at any storage operations, with any recovery
  and follow-up activity — no bound on histories, clients or crash points.
-/
import Zed.Proofs.StoreBranch
import Zed.Proofs.StoreFillRef
namespace Zed.Props.C17
open Zed.Store

/-- **crash_atomic** — whatever clients stopped wherever, journal j is in one of two shapes:
    entries are exactly 1..e, every one a complete entry, and HEAD is e (nothing in flight) or
    e-1; the second case arises exactly while the creator of entry e has not written HEAD.  So a
    cold reader (who trusts HEAD) sees the interrupted commit entirely (HEAD = e) or not at all
    (HEAD = e-1): the single commit point is the creation of entry e. -/
theorem crash_atomic (j : Nat) (s : Sys) (h : Reach j s) :
    ∃ e, (∀ n, (s.store (.ent j n)).isSome ↔ (1 ≤ n ∧ n ≤ e)) ∧
      (∀ n v, s.store (.ent j n) = some v → ∃ acts, v = .entry acts) ∧
      (headOf s.store j = e ∨
        (headOf s.store j + 1 = e ∧ ∃ c, (s.cl c).pcOn j = some (.putHead e))) := by
  obtain ⟨e, he⟩ := h.inv1
  refine ⟨e, he.range, he.typed, ?_⟩
  by_cases hh : headOf s.store j = e
  · exact Or.inl hh
  · have h1 := he.he; have h2 := he.eh
    have hb : headOf s.store j + 1 = e := by omega
    exact Or.inr ⟨hb, he.pend hb⟩

/-- **crash_durable** — everything visible (in particular everything acknowledged: a commit is
    acknowledged only after its HEAD write) stays visible and unchanged: for every position n at
    or below HEAD, the entry and the table replayed up to n are the same in every later state,
    and n stays at or below HEAD. -/
theorem crash_durable (j : Nat) (s : Sys) (h : Reach j s) (ls : List Label) (hn : NoReset j ls)
    (n : Nat) (hvis : n ≤ headOf s.store j) :
    n ≤ headOf (s.run ls).store j ∧
      (∀ m, 1 ≤ m → m ≤ n → (s.run ls).store (.ent j m) = s.store (.ent j m)) ∧
      tableAt (s.run ls).store j n = tableAt s.store j n := by
  obtain ⟨e, he⟩ := h.inv1
  obtain ⟨_, _, _, hmono, hkeep⟩ := inv1_run ls he hn
  have hent : ∀ m, 1 ≤ m → m ≤ n → (s.run ls).store (.ent j m) = s.store (.ent j m) := by
    intro m h1 h2
    have hsome : (s.store (.ent j m)).isSome := (he.range m).mpr ⟨h1, by have := he.he; omega⟩
    cases hx : s.store (.ent j m) with
    | none => rw [hx] at hsome; cases hsome
    | some v => exact hkeep m v hx
  refine ⟨by omega, hent, ?_⟩
  clear hvis
  induction n with
  | zero => rfl
  | succ k ih =>
    have ih' := ih (fun m h1 h2 => hent m h1 (by omega))
    simp only [tableAt, ih', hent (k + 1) (by omega) (Nat.le_refl _)]

/-- **crash_wedged** — the general form of the defect: once a client has stopped between its
    entry put and its HEAD put (HEAD = e-1, entry e exists), then as long as that client is not
    resumed, HEAD never moves again and no entry is ever created again, whatever any number of
    other (recovered, fresh) clients do: every later commit on this journal fails. -/
theorem crash_wedged (j : Nat) (s : Sys) (h : Reach j s) (e c0 : Nat)
    (hbehind : headOf s.store j + 1 = e) (hwho : (s.cl c0).pcOn j = some (.putHead e))
    (ls : List Label) (hn : NoReset j ls) (hstop : ∀ l ∈ ls, l ≠ .step c0) :
    headOf (s.run ls).store j = headOf s.store j ∧
      (∀ n, ((s.run ls).store (.ent j n)).isSome ↔ (1 ≤ n ∧ n ≤ e)) := by
  obtain ⟨e', he'⟩ := h.inv1
  have hee : e' = e := (he'.ph c0 e hwho).1.symm
  subst hee
  obtain ⟨hw, hH⟩ := wedged_run ls ⟨he', hbehind, hwho⟩ hn hstop
  exact ⟨hH, hw.inv.range⟩

/-- **crash_durable_commits_partial** (guard: pool j not deleted and its branches not removed /
    renamed during the run, as C12 `ack_exactly_once_partial`) — every acknowledged branch commit survives: after any crashes,
    recoveries and further activity it is still exactly once on the parent chain from its branch's
    visible tip (pool j created before, not deleted, its branches not removed). -/
theorem crash_durable_commits_partial (j : Nat) (hj : j ≠ 0) (s : Sys) (h : ReachB j s) (x : Ack)
    (hx : x ∈ s.acks) (hxj : x.pool = j) (ls : List Label) (hn : NoReset j ls) (hd : NoDrop j ls) :
    ∃ t tip, visibleTable (s.run ls).store j = some t ∧ Table.get t x.branch = some tip ∧
      (chain (s.run ls).store j tip).count x.id = 1 := by
  obtain ⟨e, h1, _, h3⟩ := (h.run ls hn hd).inv hj
  obtain ⟨t, tip, a1, a2, a3⟩ := h3.paths x (run_acks_mono ls s x hx) hxj _ (Nat.le_refl _) h1.he
  exact ⟨t, tip, a1, a2, a3.count_chain (objsDecr_of_inv3 h3)⟩

/-- **crash_atomic_commit** — a branch commit interrupted anywhere is all or nothing: either its
    commit id occurs in no journal entry (nothing of it is visible; its object, if written, is
    unreachable garbage), or its journal entry exists and then its commit object exists, complete,
    with the tip it was checked against as parent. -/
theorem crash_atomic_commit (j : Nat) (hj : j ≠ 0) (s : Sys) (h : ReachB j s) (c : Nat) (p : Proc) (id : Nat)
    (hp : (s.cl c).proc = some p) (hid : p.ownedId j = some id) :
    (¬ Ref s.store j id) ∨
    (∃ b tip att n, p = .bc b (.update tip id att (.putHead n)) ∧
      s.store (.cobj j id) = some (.commit tip b.adds b.dels) ∧
      s.store (.ent j n) = some (.entry [.update b.branch id])) := by
  obtain ⟨e, h1, h2, h3⟩ := h.inv hj
  have hbc := h3.bc c p hp
  cases p with
  | bc b ph =>
    cases ph with
    | lookup pc => simp [Proc.ownedId] at hid
    | putObj tip id' =>
      simp only [Proc.ownedId] at hid; split at hid
      · rename_i hb; cases hid; exact Or.inl (hbc hb).2.2.2.2
      · cases hid
    | cleanup id' err =>
      simp only [Proc.ownedId] at hid; split at hid
      · rename_i hb; cases hid; exact Or.inl (hbc hb).2.2
      · cases hid
    | update tip id' att pc =>
      simp only [Proc.ownedId] at hid; split at hid
      · rename_i hb; cases hid
        obtain ⟨_, _, _, a4, a5⟩ := hbc hb
        cases hpc : pc.isPutHead with
        | false => exact Or.inl (a5 hpc)
        | true =>
          cases pc <;> simp [JPc.isPutHead] at hpc
          rename_i n
          right
          have hon : (s.cl c).onJ j = some (b.slot, .putHead n) := by simp [Client.onJ, hp, Proc.onJ, hb]
          have hk : (s.cl c).kindOn j = some (.commit (.update b.branch tip id) att) := by
            simp [Client.kindOn, hp, Proc.kindOn, hb]
          obtain ⟨op, a, hk', hent⟩ := h2.pcs c b.slot _ _ hon hk
          cases hk'
          exact ⟨b, tip, att, n, rfl, a4, hent⟩
      · cases hid
  | _ => simp [Proc.ownedId] at hid

/-! ### Crashes under the create-then-fill put discipline (local file engine) -/

/-- **fill_crash_atomic** — with create-then-fill puts a crash can also leave an *empty* entry
    file, but only as entry HEAD+1 (its creator stopped between the exclusive create and the
    fill); every entry at or below HEAD is a complete file and the journal replays up to HEAD: a
    cold reader still sees all or nothing of the interrupted commit. -/
theorem fill_crash_atomic (j : Nat) (f : FSys) (h : FReach j f) :
    ∃ e, (∀ n, (f.a.store (.ent j n)).isSome ↔ (1 ≤ n ∧ n ≤ e)) ∧
      (∀ n, f.half (.ent j n) = true → n = e ∧ headOf f.a.store j + 1 = e) ∧
      (∀ n, n ≤ headOf f.a.store j → f.half (.ent j n) = false) ∧
      ∃ t, visibleTable f.a.store j = some t := by
  obtain ⟨hr, hi⟩ := h.inv
  obtain ⟨e, h1, h2⟩ := hr.inv12
  refine ⟨e, h1.range, fun n hh => fill_half_entry_is_end h1 hi n hh, ?_, h2.wf.tableAt_some _ h1.he⟩
  intro n hn
  cases hx : f.half (.ent j n) with
  | false => rfl
  | true => have := fill_half_entry_is_end h1 hi n hx; omega

/-- The witness for `not_fill_crash_readable`: client 0 commits on the pools journal and is stopped
    after truncating HEAD (4 storage operations: Get HEAD, exclusive create of entry 1, its fill,
    truncate HEAD); the fresh client 1 then tries to load the journal, 30 storage operations. -/
def fillHeadLabels : List FLabel :=
  [.start 0 (.commit 0 0 (.insert 1 7)), .step 0, .step 0, .step 0, .step 0, .start 1 (.load 0 0)] ++
    List.replicate 30 (.step 1)

/-- **not_fill_crash_readable** — `crash_readable` is FALSE under create-then-fill puts (harness
    key C17:fill:head-empty, replayed on the real code): HEAD is rewritten in place, so a crash
    between its truncation and its fill leaves an empty HEAD; the recovered reader never gets past
    `Get HEAD` (`readID` retries, then gives up: the journal cannot be opened), although entry 1 is
    complete. -/
theorem not_fill_crash_readable :
    let f := FSys.init.run fillHeadLabels
    f.reads (.head 0) = some none ∧ f.mid 0 = some (.head 0) ∧
      ((f.a.cl 1).proc = some (.jp 0 0 .load .rdHead)) ∧ (f.a.cl 1).res = none ∧
      (f.a.store (.ent 0 1)).isSome ∧ f.half (.ent 0 1) = false := by
  decide

/-- **crash_readable** — after any crashes the journal replays without error up to HEAD: a cold
    reader gets a table, namely the one before or after the interrupted commit. -/
theorem crash_readable (j : Nat) (s : Sys) (h : Reach j s) : ∃ t, visibleTable s.store j = some t := by
  obtain ⟨e, h1, h2⟩ := h.inv12
  exact h2.wf.tableAt_some _ h1.he

/-- **crash_live_partial** — guard: the crash point is outside the [entry put, HEAD put] window,
    i.e. HEAD is the journal end (entry HEAD+1 does not exist).  Then `CommitAt(HEAD)` of a client
    that has loaded HEAD succeeds when run alone: two storage operations later the entry exists,
    HEAD is advanced and the procedure has ended.  (The full `crash_live` — for every crash
    point — is false: `not_crash_live`.) -/
theorem crash_live_partial (j : Nat) (s : Sys) (h : Reach j s) (c slot pos : Nat) (op : JOp) (a : Nat)
    (hon : (s.cl c).onJ j = some (slot, .putx pos)) (hk : (s.cl c).kindOn j = some (.commit op a))
    (hguard : s.store (.ent j (pos + 1)) = none) :
    let s2 := ((s.step c).1.step c).1
    headOf s2.store j = pos + 1 ∧ s2.store (.ent j (pos + 1)) = some (.entry op.acts) ∧
      (s2.cl c).pcOn j = none :=
  commit_at_end_succeeds h c slot pos op a hon hk hguard

/-- Non-vacuity of `crash_live_partial`: on a fresh lake client 0 reaches `putx 0` after one
    storage operation and the guard holds. -/
example : (((Sys.init.run [.start 0 (.commit 0 0 (.insert 1 7)), .step 0]).cl 0).onJ 0 = some (0, .putx 0)) ∧
    (Sys.init.run [.start 0 (.commit 0 0 (.insert 1 7)), .step 0]).store (.ent 0 1) = none := by decide

/-! ### `crash_live` is false of the current code (DESIGN §11 item 7; replayed on the real code
    by the harness, key C17:live:head-behind-journal-end)

    crash_live (full statement): for every reachable state, every journal j, a fresh client that
    runs a commit whose constraint holds, alone, is acknowledged.                              -/

/-- The witness trace on the pools journal of a fresh lake: client 0 inserts key 1 and is stopped
    after its entry put (2 storage operations); then the fresh client 1 tries to insert key 2 and
    runs alone until its procedure ends (10 attempts × 2 storage operations). -/
def wedgeLabels : List Label :=
  [.start 0 (.commit 0 0 (.insert 1 7)), .step 0, .step 0, .start 1 (.commit 0 0 (.insert 2 8))] ++
    List.replicate 20 (.step 1)

/-- **not_crash_live** — after the crash the journal shows none of client 0's commit (HEAD = 0,
    atomic), client 1's constraint holds (key 2 is absent), and yet client 1's commit fails with
    `journal.ErrRetriesExceeded` and leaves nothing behind. -/
theorem not_crash_live :
    let s := Sys.init.run wedgeLabels
    headOf s.store 0 = 0 ∧ visibleTable s.store 0 = some [] ∧
      (s.cl 1).res = some .retries ∧ (s.cl 1).proc = none ∧ s.store (.ent 0 2) = none := by
  decide

/-- The witness is a state of the system (non-vacuity of `crash_wedged`'s hypotheses). -/
example : Reach 0 (Sys.init.run (wedgeLabels.take 3)) ∧
    headOf (Sys.init.run (wedgeLabels.take 3)).store 0 + 1 = 1 ∧
    ((Sys.init.run (wedgeLabels.take 3)).cl 0).pcOn 0 = some (.putHead 1) :=
  ⟨⟨Sys.init, _, init_fresh, noReset_zero _, rfl⟩, by decide, by decide⟩

end Zed.Props.C17
