import Zed.Model.ZngTypeValue
/-! `DecodeTypeValue` model: fuel `length + 1` always suffices; panics only at three sites. -/
namespace Zed.Zng.TV
open Zed.Zng Zed.Generated.C01

theorem decLength_progress {tv r : Bytes} {n : Int} (h : decLength tv = some (n, r)) : r.length < tv.length := by
  unfold decLength at h
  split at h
  · rename_i u r' hu; cases h; exact readUvarint_progress tv u _ hu
  · cases h

theorem decName_progress {tv r : Bytes} {s : Bytes} {d : Defs} (h : decName tv = .ok s r d) : r.length < tv.length := by
  unfold decName at h
  split at h
  · cases h
  · rename_i n r' hl
    have := decLength_progress hl
    split at h
    · cases h
    · split at h
      · cases h
      · cases h; simp; omega

theorem decName_no_fuel {tv : Bytes} : decName tv ≠ .fuelOut := by
  unfold decName; split
  · simp
  · split
    · simp
    · split <;> simp

/-- results that are neither `ok` nor out of fuel satisfy every "no fuelOut / progress" claim -/
theorem triv_fail {α : Type} {P : α → Bytes → Defs → Prop} :
    (Res.fail : Res α) ≠ .fuelOut ∧ ∀ a r d, (Res.fail : Res α) = .ok a r d → P a r d :=
  ⟨by simp, by intro _ _ _ h; cases h⟩
theorem triv_panic {α : Type} {P : α → Bytes → Defs → Prop} {p : String} :
    (Res.panic p : Res α) ≠ .fuelOut ∧ ∀ a r d, (Res.panic p : Res α) = .ok a r d → P a r d :=
  ⟨by simp, by intro _ _ _ h; cases h⟩
theorem triv_ok {α : Type} {P : α → Bytes → Defs → Prop} {a : α} {r : Bytes} {d : Defs} (h : P a r d) :
    (Res.ok a r d : Res α) ≠ .fuelOut ∧ ∀ a' r' d', (Res.ok a r d : Res α) = .ok a' r' d' → P a' r' d' :=
  ⟨by simp, by intro _ _ _ he; cases he; exact h⟩

theorem decSyms_spec : ∀ (n : Nat) (tv : Bytes), decSyms n tv ≠ .fuelOut ∧
    (∀ ss r d, decSyms n tv = .ok ss r d → r.length ≤ tv.length) := by
  intro n
  induction n with
  | zero => intro tv; simp only [decSyms]; exact triv_ok (Nat.le_refl _)
  | succ n ih =>
    intro tv
    simp only [decSyms]
    split
    · rename_i s r d hn
      have hp := decName_progress hn
      have hi := ih r
      split
      · rename_i ss r2 d2 hs
        have := hi.2 ss r2 d2 hs
        exact triv_ok (by omega)
      · exact triv_fail
      · exact triv_panic
      · rename_i hs; exact absurd hs hi.1
    · exact triv_fail
    · exact triv_panic
    · rename_i hn; exact absurd hn decName_no_fuel

/-- the three facts proved together by induction on the fuel -/
def Spec (fuel : Nat) : Prop :=
  (∀ defs bs, bs.length < fuel → decTV fuel defs bs ≠ .fuelOut ∧
      ∀ t r d, decTV fuel defs bs = .ok t r d → r.length < bs.length) ∧
  (∀ n defs bs, bs.length + 1 < fuel → decFields fuel n defs bs ≠ .fuelOut ∧
      ∀ fs r d, decFields fuel n defs bs = .ok fs r d → r.length ≤ bs.length) ∧
  (∀ n defs bs, bs.length + 1 < fuel → decMembers fuel n defs bs ≠ .fuelOut ∧
      ∀ ts r d, decMembers fuel n defs bs = .ok ts r d → r.length ≤ bs.length)

/-- wrapper cases: `match x with | .ok t r d => .ok (f t) r d | e => e` -/
theorem wrap_spec {fuel : Nat} {defs : Defs} {tv : Bytes} {id : UInt8} (f : ZTy → ZTy)
    (h : decTV fuel defs tv ≠ .fuelOut ∧ ∀ t r d, decTV fuel defs tv = .ok t r d → r.length < tv.length) :
    (match decTV fuel defs tv with | .ok t r d => Res.ok (f t) r d | e => e) ≠ .fuelOut ∧
    ∀ t r d, (match decTV fuel defs tv with | .ok t r d => Res.ok (f t) r d | e => e) = .ok t r d →
      r.length < (id :: tv).length := by
  split
  · rename_i t r d hd
    have := h.2 t r d hd
    exact triv_ok (by simp; omega)
  · rename_i hne
    exact ⟨h.1, fun t r d he => absurd he (hne t r d)⟩

theorem spec_all : ∀ fuel, Spec fuel := by
  intro fuel
  induction fuel with
  | zero => exact ⟨fun _ bs h => by omega, fun _ _ bs h => by omega, fun _ _ bs h => by omega⟩
  | succ fuel ih =>
    obtain ⟨ihT, ihF, ihM⟩ := ih
    refine ⟨?_, ?_, ?_⟩
    · intro defs bs hl
      cases bs with
      | nil => simp only [decTV]; exact triv_fail
      | cons id tv =>
        have hl' : tv.length < fuel := by simp only [List.length_cons] at hl; omega
        rw [decTV]
        by_cases hc1 : id.toNat = typeValueNameDef
        · rw [if_pos hc1]
          -- NameDef
          split
          · rename_i name r d0 hn
            have hp := decName_progress hn
            have hT := ihT defs r (by omega)
            split
            · rename_i t r2 d2 hd
              have := hT.2 t r2 d2 hd
              split
              · exact triv_ok (by simp; omega)
              · exact triv_fail
            · rename_i hne
              exact ⟨hT.1, fun t r d he => absurd he (hne t r d)⟩
          · exact triv_fail
          · exact triv_panic
          · rename_i hn; exact absurd hn decName_no_fuel
        rw [if_neg hc1]
        by_cases hc2 : id.toNat = typeValueNameRef
        · rw [if_pos hc2]
          -- NameRef
          split
          · rename_i name r d0 hn
            have hp := decName_progress hn
            split
            · exact triv_ok (by simp; omega)
            · exact triv_fail
          · exact triv_fail
          · exact triv_panic
          · rename_i hn; exact absurd hn decName_no_fuel
        rw [if_neg hc2]
        by_cases hc3 : id.toNat = typeValueRecord
        · rw [if_pos hc3]
          -- Record
          split
          · exact triv_fail
          · rename_i n r hlen
            have hp := decLength_progress hlen
            split
            · exact triv_fail
            · split
              · exact triv_panic
              · have hF := ihF n.toNat defs r (by omega)
                split
                · rename_i fs r2 d2 hd
                  have := hF.2 fs r2 d2 hd
                  split
                  · exact triv_fail
                  · exact triv_ok (by simp; omega)
                · exact triv_fail
                · exact triv_panic
                · rename_i hd; exact absurd hd hF.1
        rw [if_neg hc3]
        by_cases hc4 : id.toNat = typeValueArray
        · rw [if_pos hc4]
          exact wrap_spec ZTy.array (ihT defs tv hl')
        rw [if_neg hc4]
        by_cases hc5 : id.toNat = typeValueSet
        · rw [if_pos hc5]
          exact wrap_spec ZTy.set (ihT defs tv hl')
        rw [if_neg hc5]
        by_cases hc6 : id.toNat = typeValueError
        · rw [if_pos hc6]
          exact wrap_spec ZTy.error (ihT defs tv hl')
        rw [if_neg hc6]
        by_cases hc7 : id.toNat = typeValueMap
        · rw [if_pos hc7]
          -- Map
          have hT := ihT defs tv hl'
          split
          · rename_i k r d hk
            have hp := hT.2 k r d hk
            have hT2 := ihT d r (by omega)
            split
            · rename_i v r2 d2 hv
              have := hT2.2 v r2 d2 hv
              exact triv_ok (by simp; omega)
            · rename_i hne
              exact ⟨hT2.1, fun t r d he => absurd he (hne t r d)⟩
          · rename_i hne
            exact ⟨hT.1, fun t r d he => absurd he (hne t r d)⟩
        rw [if_neg hc7]
        by_cases hc8 : id.toNat = typeValueUnion
        · rw [if_pos hc8]
          -- Union
          split
          · exact triv_fail
          · rename_i n r hlen
            have hp := decLength_progress hlen
            split
            · exact triv_fail
            · split
              · exact triv_panic
              · have hM := ihM n.toNat defs r (by omega)
                split
                · rename_i ts r2 d2 hd
                  have := hM.2 ts r2 d2 hd
                  exact triv_ok (by simp; omega)
                · exact triv_fail
                · exact triv_panic
                · rename_i hd; exact absurd hd hM.1
        rw [if_neg hc8]
        by_cases hc9 : id.toNat = typeValueEnum
        · rw [if_pos hc9]
          -- Enum
          split
          · exact triv_fail
          · rename_i n r hlen
            have hp := decLength_progress hlen
            split
            · exact triv_fail
            · have hS := decSyms_spec n.toNat r
              split
              · rename_i ss r2 d2 hd
                have := hS.2 ss r2 d2 hd
                exact triv_ok (by simp; omega)
              · exact triv_fail
              · exact triv_panic
              · rename_i hd; exact absurd hd hS.1
        rw [if_neg hc9]
        by_cases hc10 : primitiveIDs.contains id.toNat = true
        · rw [if_pos hc10]
          exact triv_ok (by simp)
        · rw [if_neg hc10]
          exact triv_fail
    · intro n defs bs hl
      cases n with
      | zero => simp only [decFields]; exact triv_ok (Nat.le_refl _)
      | succ n =>
        simp only [decFields]
        split
        · rename_i name r d0 hn
          have hp := decName_progress hn
          have hT := ihT defs r (by omega)
          split
          · rename_i t r2 d2 hd
            have hp2 := hT.2 t r2 d2 hd
            have hF := ihF n d2 r2 (by omega)
            split
            · rename_i fs r3 d3 hf
              have := hF.2 fs r3 d3 hf
              exact triv_ok (by omega)
            · exact triv_fail
            · exact triv_panic
            · rename_i hf; exact absurd hf hF.1
          · exact triv_fail
          · exact triv_panic
          · rename_i hd; exact absurd hd hT.1
        · exact triv_fail
        · exact triv_panic
        · rename_i hn; exact absurd hn decName_no_fuel
    · intro n defs bs hl
      cases n with
      | zero => simp only [decMembers]; exact triv_ok (Nat.le_refl _)
      | succ n =>
        simp only [decMembers]
        have hT : decTV fuel defs bs ≠ .fuelOut ∧ ∀ t r d, decTV fuel defs bs = .ok t r d → r.length < bs.length := by
          exact ihT defs bs (by omega)
        split
        · rename_i t r d2 hd
          have hp := hT.2 t r d2 hd
          have hM := ihM n d2 r (by omega)
          split
          · rename_i ts r2 d3 hm
            have := hM.2 ts r2 d3 hm
            exact triv_ok (by omega)
          · rename_i hne
            exact ⟨hM.1, fun t r d he => absurd he (hne t r d)⟩
        · exact triv_panic
        · exact triv_panic
        · rename_i hd; exact absurd hd hT.1

/-- **fuel `length + 1` is always enough** -/
theorem lookupByValue_total (tv : Bytes) : lookupByValue tv ≠ .fuelOut :=
  ((spec_all (tv.length + 1)).1 [] tv (Nat.lt_succ_self _)).1

end Zed.Zng.TV
