/-
  The seek index entries of an object partition its values, and each entry's [min,max] bounds
  the keys of the values it covers.  Helper lemmas for C14 (hypothesis of C16's `seek_sound`).
-/
import Zed.Model.LakeSeek
import Zed.Proofs.LakeSorted
namespace Zed.Lake
variable {K V : Type}

/-- offsets and counts of consecutive entries chain up from `off` -/
def OffsetsOk : Nat → List (SeekEntry K × List V) → Prop
  | _, [] => True
  | off, (e, seg) :: r => e.valOff = off ∧ e.valCnt = seg.length ∧ seg ≠ [] ∧ OffsetsOk (off + seg.length) r

/-- an entry records the keys of the first and the last value it covers -/
def SegOk (cfg : Cfg K V) (p : SeekEntry K × List V) : Prop :=
  ∃ f l, p.2.head? = some f ∧ p.2.getLast? = some l ∧
    p.1.min = (if cfg.desc then cfg.mkey l else cfg.mkey f) ∧
    p.1.max = (if cfg.desc then cfg.mkey f else cfg.mkey l)

theorem mkEntry_segOk (cfg : Cfg K V) (seg : List V) (f l : V) (off : Nat)
    (hf : seg.head? = some f) (hl : seg.getLast? = some l) :
    SegOk cfg (mkEntry cfg (cfg.mkey f) (cfg.mkey l) off seg.length, seg) := by
  refine ⟨f, l, hf, hl, ?_, ?_⟩ <;> (unfold mkEntry; cases cfg.desc <;> simp)

theorem seekGo_spec (cfg : Cfg K V) (stride : Nat) (kbytes : V → Nat) (vs : List V) (trig : Nat)
    (cur : List V) (off : Nat) :
    ((seekGo cfg stride kbytes vs trig cur off).flatMap (·.2) = cur ++ vs) ∧
    OffsetsOk off (seekGo cfg stride kbytes vs trig cur off) ∧
    ∀ p ∈ seekGo cfg stride kbytes vs trig cur off, SegOk cfg p := by
  induction vs generalizing trig cur off with
  | nil =>
    unfold seekGo
    cases cur with
    | nil => simp [OffsetsOk]
    | cons a as =>
      have h2 : (a :: as).getLast? = some ((a :: as).getLast (by simp)) := List.getLast?_eq_some_getLast (by simp)
      simp only [List.head?_cons, h2]
      refine ⟨by simp, ⟨by simp [mkEntry]; cases cfg.desc <;> rfl, by simp [mkEntry]; cases cfg.desc <;> rfl, by simp, trivial⟩, ?_⟩
      intro p hp
      simp only [List.mem_singleton] at hp
      subst hp
      exact mkEntry_segOk cfg (a :: as) a _ off rfl h2
  | cons v vs ih =>
    unfold seekGo
    simp only []
    split
    · obtain ⟨h1, h2, h3⟩ := ih (trig + kbytes v) (cur ++ [v]) off
      exact ⟨by rw [h1]; simp, h2, h3⟩
    · obtain ⟨h1, h2, h3⟩ := ih 0 [] (off + (cur ++ [v]).length)
      have hne : cur ++ [v] ≠ [] := by simp
      have hlast : (cur ++ [v]).getLast? = some v := by simp
      cases hh : (cur ++ [v]).head? with
      | none => simp at hh
      | some f =>
        simp only []
        have h1' : List.flatMap (fun x => x.snd) (seekGo cfg stride kbytes vs 0 [] (off + (cur ++ [v]).length)) = vs := by simpa using h1
        refine ⟨by rw [List.flatMap_cons, h1']; simp, ⟨?_, ?_, hne, h2⟩, ?_⟩
        · unfold mkEntry; cases cfg.desc <;> rfl
        · unfold mkEntry; cases cfg.desc <;> rfl
        · intro p hp
          simp only [List.mem_cons] at hp
          rcases hp with hp | hp
          · subst hp; exact mkEntry_segOk cfg (cur ++ [v]) f v off hh hlast
          · exact h3 p hp

/-- a contiguous piece of a key-sorted sequence is key-sorted -/
theorem isSorted_append_left (cfg : Cfg K V) (L : KeyLaws cfg) (a b : List V) (h : isSorted cfg (a ++ b) = true) :
    isSorted cfg a = true ∧ isSorted cfg b = true := by
  induction a with
  | nil => exact ⟨rfl, h⟩
  | cons x xs ih =>
    have hc := isSorted_cons cfg L x (xs ++ b) h
    obtain ⟨h1, h2⟩ := ih hc.1
    refine ⟨?_, h2⟩
    cases xs with
    | nil => rfl
    | cons y ys =>
      simp only [isSorted, Bool.and_eq_true]
      exact ⟨hc.2 y (by simp), h1⟩

theorem flatMap_sorted_pieces (cfg : Cfg K V) (L : KeyLaws cfg) (segs : List (SeekEntry K × List V))
    (h : isSorted cfg (segs.flatMap (·.2)) = true) : ∀ p ∈ segs, isSorted cfg p.2 = true := by
  induction segs with
  | nil => intro p hp; cases hp
  | cons s ss ih =>
    simp only [List.flatMap_cons] at h
    obtain ⟨h1, h2⟩ := isSorted_append_left cfg L _ _ h
    intro p hp
    simp only [List.mem_cons] at hp
    rcases hp with hp | hp
    · subst hp; exact h1
    · exact ih h2 p hp

/-- **seek_entries_cover**: the `(entry, covered values)` pairs `data.Writer` produces for the
    key-sorted value sequence `vals` of an object: the covered pieces, in order, are exactly
    `vals` (no value without an entry, none in two); `val_off` / `val_cnt` are their positions and
    (non-zero) lengths; and every covered value's key lies in the entry's `[min, max]`. -/
theorem seek_cover (cfg : Cfg K V) (L : KeyLaws cfg) (hk : cfg.mkey = cfg.key) (stride : Nat)
    (kbytes : V → Nat) (vals : List V) (hs : isSorted cfg vals = true) :
    (seekSegs cfg stride kbytes vals).flatMap (·.2) = vals ∧
    OffsetsOk 0 (seekSegs cfg stride kbytes vals) ∧
    ∀ p ∈ seekSegs cfg stride kbytes vals, ∀ v ∈ p.2,
      cfg.kle p.1.min (cfg.key v) = true ∧ cfg.kle (cfg.key v) p.1.max = true := by
  obtain ⟨h1, h2, h3⟩ := seekGo_spec cfg stride kbytes vals 0 [] 0
  have h1 : (seekSegs cfg stride kbytes vals).flatMap (·.2) = vals := by
    unfold seekSegs; simpa using h1
  refine ⟨h1, h2, ?_⟩
  intro p hp v hv
  obtain ⟨f, l, hf, hl, hmin, hmax⟩ := h3 p hp
  have hsorted : isSorted cfg p.2 = true :=
    flatMap_sorted_pieces cfg L _ (by rw [h1]; exact hs) p hp
  have hb := sorted_bounds cfg L p.2 f l hsorted hf hl v hv
  rw [hmin, hmax, hk]
  cases hd : cfg.desc
  · simp only [kvle, hd, Bool.false_eq_true, if_false] at hb ⊢; exact hb
  · simp only [kvle, hd, if_true] at hb ⊢; exact ⟨hb.2, hb.1⟩

end Zed.Lake
