package hlib

// Column-oriented value generator shared by the C03 and C09 harnesses.
//
// A value is a tree VVal mirroring the zcode body (null / primitive bytes / container of
// items), typed by a TSpec.  The generator controls, per node of the type tree, the number
// of distinct primitive values (0/1/2..256/257+: the const / dict / plain encodings of VNG
// depend on it) and the null pattern (none, sparse, dense, runs at start / middle / end).

import (
	"bytes"
	"encoding/hex"
	"fmt"
	"math/rand"
	"net/netip"
	"sort"
	"strings"

	zed "github.com/brimdata/super"
	"github.com/brimdata/super/zcode"
)

// VVal: Null, or Prim bytes (Cont false), or container Items (Cont true).
type VVal struct {
	Null  bool
	Cont  bool
	Prim  []byte
	Items []*VVal
}

func VNull() *VVal               { return &VVal{Null: true} }
func VPrim(b []byte) *VVal       { return &VVal{Prim: append([]byte{}, b...)} }
func VCont(items ...*VVal) *VVal { return &VVal{Cont: true, Items: items} }

// Append serialises the value as one tagged zcode item.
func (v *VVal) Append(b *zcode.Builder) {
	switch {
	case v.Null:
		b.Append(nil)
	case v.Cont:
		b.BeginContainer()
		for _, it := range v.Items {
			it.Append(b)
		}
		b.EndContainer()
	default:
		b.Append(v.Prim)
	}
}

// Body returns the zcode body (nil for null).
func (v *VVal) Body() zcode.Bytes {
	if v.Null {
		return nil
	}
	b := zcode.NewBuilder()
	v.Append(b)
	return b.Bytes().Body()
}

// Tagged returns the tagged encoding (tag + body).
func (v *VVal) Tagged() []byte {
	b := zcode.NewBuilder()
	v.Append(b)
	return append([]byte{}, b.Bytes()...)
}

// Sexp: n | (p hex) | (c item…)
func (v *VVal) Sexp() string {
	var sb strings.Builder
	v.sexp(&sb)
	return sb.String()
}

func (v *VVal) sexp(sb *strings.Builder) {
	switch {
	case v.Null:
		sb.WriteString("n")
	case v.Cont:
		sb.WriteString("(c")
		for _, it := range v.Items {
			sb.WriteByte(' ')
			it.sexp(sb)
		}
		sb.WriteByte(')')
	default:
		sb.WriteString("(p ")
		if len(v.Prim) == 0 {
			sb.WriteByte('-')
		} else {
			sb.WriteString(hex.EncodeToString(v.Prim))
		}
		sb.WriteByte(')')
	}
}

// VValOfBody parses a zcode body of type t back into a tree (nil body = null).
func VValOfBody(t *TSpec, body zcode.Bytes) *VVal {
	if body == nil {
		return VNull()
	}
	switch t.Kind {
	case "named", "error":
		return VValOfBody(t.Elems[0], body)
	case "prim", "enum":
		return VPrim(body)
	case "record":
		v := VCont()
		it := body.Iter()
		for _, f := range t.Fields {
			if it.Done() {
				break
			}
			v.Items = append(v.Items, VValOfBody(f.Type, it.Next()))
		}
		return v
	case "array", "set":
		v := VCont()
		for it := body.Iter(); !it.Done(); {
			v.Items = append(v.Items, VValOfBody(t.Elems[0], it.Next()))
		}
		return v
	case "map":
		v := VCont()
		k := 0
		for it := body.Iter(); !it.Done(); k++ {
			v.Items = append(v.Items, VValOfBody(t.Elems[k%2], it.Next()))
		}
		return v
	case "union":
		it := body.Iter()
		tagb := it.Next()
		tag := int(zed.DecodeInt(tagb))
		v := VCont(VPrim(tagb))
		if tag >= 0 && tag < len(t.Elems) && !it.Done() {
			v.Items = append(v.Items, VValOfBody(t.Elems[tag], it.Next()))
		}
		return v
	}
	panic("bad kind " + t.Kind)
}

// ---- generation -------------------------------------------------------------------------

// VPolicy is the per-type-node generation policy.
type VPolicy struct {
	Distinct int     // number of distinct primitive values drawn from (>=1)
	NullP    float64 // probability of null outside runs
	MaxLen   int     // containers: maximal length
	LenZeroP float64 // containers: probability of the empty container
}

type VGen struct {
	Rng *rand.Rand
	// VecSafe restricts generation to what the row path and the vector path are both
	// designed to represent identically: normalized sets/maps (always on), no duplicates.
	pol     map[*TSpec]*VPolicy
	Zctx    *zed.Context
	Force   *VPolicy // when non-nil used for every node (boundary cases)
	NoNulls bool
}

func NewVGen(r *rand.Rand) *VGen {
	return &VGen{Rng: r, pol: map[*TSpec]*VPolicy{}, Zctx: zed.NewContext()}
}

var vDistinctChoices = []int{1, 1, 2, 2, 3, 5, 17, 255, 256, 257, 300}
var vNullChoices = []float64{0, 0, 0, 0.05, 0.3, 0.5, 0.9, 1}

func (g *VGen) Policy(t *TSpec) *VPolicy {
	if g.Force != nil {
		return g.Force
	}
	if p, ok := g.pol[t]; ok {
		return p
	}
	r := g.Rng
	p := &VPolicy{
		Distinct: vDistinctChoices[r.Intn(len(vDistinctChoices))],
		NullP:    vNullChoices[r.Intn(len(vNullChoices))],
		MaxLen:   []int{0, 1, 2, 3, 5}[r.Intn(5)],
		LenZeroP: []float64{0, 0.2, 0.6}[r.Intn(3)],
	}
	if g.NoNulls {
		p.NullP = 0
	}
	g.pol[t] = p
	return p
}

func (g *VGen) SetPolicy(t *TSpec, p *VPolicy) { g.pol[t] = p }

// PrimBytes returns the j-th distinct canonical value of primitive type id.
func (g *VGen) PrimBytes(id int, j int) []byte {
	u := uint64(j)
	switch id {
	case zed.IDUint8:
		return zed.EncodeUint(u % 256)
	case zed.IDUint16:
		return zed.EncodeUint(u * 131 % 65536)
	case zed.IDUint32:
		return zed.EncodeUint(u * 65537 % (1 << 32))
	case zed.IDUint64:
		if j%7 == 3 {
			return zed.EncodeUint(^uint64(0) - u)
		}
		return zed.EncodeUint(u * 4294967311)
	case zed.IDInt8:
		return zed.EncodeInt(int64(int8(j)))
	case zed.IDInt16:
		return zed.EncodeInt(int64(int16(j * 77)))
	case zed.IDInt32:
		return zed.EncodeInt(int64(int32(j * 1000003)))
	case zed.IDInt64, zed.IDDuration, zed.IDTime:
		x := int64(j) * 10000000019
		if j%2 == 1 {
			x = -x
		}
		if j%11 == 5 {
			x = int64(^uint64(0)>>1) - int64(j)
		}
		if j%11 == 6 {
			x = -int64(^uint64(0)>>1) - 1 + int64(j)
		}
		return zed.EncodeInt(x)
	case zed.IDFloat16:
		return zed.EncodeFloat16(float32(j%2048) - 1000)
	case zed.IDFloat32:
		return zed.EncodeFloat32(float32(j)*0.25 - 7)
	case zed.IDFloat64:
		return zed.EncodeFloat64(float64(j)*1.1 - 3)
	case zed.IDBool:
		return zed.EncodeBool(j%2 == 1)
	case zed.IDBytes:
		if j == 0 {
			return []byte{}
		}
		return []byte(fmt.Sprintf("%x", j*j))
	case zed.IDString:
		switch j {
		case 0:
			return []byte{}
		case 1:
			return []byte("a")
		case 2:
			return []byte("é")
		}
		return []byte(fmt.Sprintf("s%d", j))
	case zed.IDIP:
		if j%3 == 2 {
			var a [16]byte
			a[0], a[1], a[14], a[15] = 0x20, 0x01, byte(j>>8), byte(j)
			return zed.EncodeIP(netip.AddrFrom16(a))
		}
		return zed.EncodeIP(netip.AddrFrom4([4]byte{10, byte(j >> 16), byte(j >> 8), byte(j)}))
	case zed.IDNet:
		if j%3 == 2 {
			var a [16]byte
			a[0], a[1], a[4], a[5] = 0x20, 0x01, byte(j>>8), byte(j)
			return zed.EncodeNet(netip.PrefixFrom(netip.AddrFrom16(a), 64))
		}
		return zed.EncodeNet(netip.PrefixFrom(netip.AddrFrom4([4]byte{10, byte(j >> 8), byte(j), 0}), 24))
	case zed.IDType:
		if j == 0 {
			return zed.EncodeTypeValue(zed.TypeInt64)
		}
		if j == 1 {
			return zed.EncodeTypeValue(g.Zctx.LookupTypeArray(zed.TypeString))
		}
		return zed.EncodeTypeValue(g.Zctx.MustLookupTypeRecord([]zed.Field{{Name: fmt.Sprintf("f%d", j), Type: zed.TypeInt64}}))
	}
	panic(fmt.Sprintf("PrimBytes: id %d", id))
}

// MaxDistinct is the number of distinct values PrimBytes can produce for id.
func MaxDistinct(id int) int {
	switch id {
	case zed.IDBool:
		return 2
	case zed.IDUint8, zed.IDInt8:
		return 256
	case zed.IDFloat16:
		return 2048
	case zed.IDNull:
		return 0
	}
	return 1 << 20
}

// Value generates one value of type t.
func (g *VGen) Value(t *TSpec, depth int) *VVal {
	p := g.Policy(t)
	r := g.Rng
	switch t.Kind {
	case "named", "error":
		// the body of a named / error value is the body of the inner value
		return g.Value(t.Elems[0], depth)
	}
	if p.NullP > 0 && r.Float64() < p.NullP {
		return VNull()
	}
	switch t.Kind {
	case "prim":
		if t.ID == zed.IDNull {
			return VNull()
		}
		d := p.Distinct
		if m := MaxDistinct(t.ID); d > m {
			d = m
		}
		return VPrim(g.PrimBytes(t.ID, r.Intn(d)))
	case "enum":
		if len(t.Syms) == 0 {
			return VNull()
		}
		d := p.Distinct
		if d > len(t.Syms) {
			d = len(t.Syms)
		}
		return VPrim(zed.EncodeUint(uint64(r.Intn(d))))
	case "record":
		v := VCont()
		for _, f := range t.Fields {
			v.Items = append(v.Items, g.Value(f.Type, depth+1))
		}
		return v
	case "array", "set", "map":
		n := 0
		if p.MaxLen > 0 && r.Float64() >= p.LenZeroP {
			n = 1 + r.Intn(p.MaxLen)
		}
		if depth > 3 && n > 2 {
			n = 2
		}
		v := VCont()
		if t.Kind == "map" {
			type kv struct {
				k, v *VVal
				kb   []byte
			}
			var kvs []kv
			for i := 0; i < n; i++ {
				k := g.Value(t.Elems[0], depth+1)
				kvs = append(kvs, kv{k, g.Value(t.Elems[1], depth+1), k.Tagged()})
			}
			sort.SliceStable(kvs, func(i, j int) bool { return bytes.Compare(kvs[i].kb, kvs[j].kb) < 0 })
			for i, e := range kvs {
				if i > 0 && bytes.Equal(e.kb, kvs[i-1].kb) {
					continue
				}
				v.Items = append(v.Items, e.k, e.v)
			}
			return v
		}
		for i := 0; i < n; i++ {
			v.Items = append(v.Items, g.Value(t.Elems[0], depth+1))
		}
		if t.Kind == "set" {
			type el struct {
				v *VVal
				b []byte
			}
			var els []el
			for _, it := range v.Items {
				els = append(els, el{it, it.Tagged()})
			}
			sort.SliceStable(els, func(i, j int) bool { return bytes.Compare(els[i].b, els[j].b) < 0 })
			v.Items = nil
			for i, e := range els {
				if i > 0 && bytes.Equal(e.b, els[i-1].b) {
					continue
				}
				v.Items = append(v.Items, e.v)
			}
		}
		return v
	case "union":
		tag := r.Intn(len(t.Elems))
		return VCont(VPrim(zed.EncodeInt(int64(tag))), g.Value(t.Elems[tag], depth+1))
	}
	panic("bad kind " + t.Kind)
}

// Column generates n values of type t, then overlays null runs at the start / middle / end
// of the column with some probability (only for nullable positions: everything but the
// inner value of named/error wrappers is nullable at top level).
func (g *VGen) Column(t *TSpec, n int) []*VVal {
	out := make([]*VVal, n)
	for i := range out {
		out[i] = g.Value(t, 0)
	}
	if g.NoNulls || n == 0 {
		return out
	}
	r := g.Rng
	run := func(lo, hi int) {
		if lo < 0 {
			lo = 0
		}
		for i := lo; i < hi && i < n; i++ {
			out[i] = VNull()
		}
	}
	if r.Intn(4) == 0 {
		run(0, 1+r.Intn(3))
	}
	if r.Intn(4) == 0 {
		m := r.Intn(n)
		run(m, m+1+r.Intn(4))
	}
	if r.Intn(4) == 0 {
		run(n-1-r.Intn(3), n)
	}
	return out
}

// CanonSpec returns the spec as the real zed.Context canonicalises it (union members are
// sorted and deduplicated by LookupTypeUnion) together with the real type.
func CanonSpec(zctx *zed.Context, t *TSpec) (*TSpec, zed.Type, error) {
	typ, err := t.Build(zctx)
	if err != nil {
		return nil, nil, err
	}
	return SpecOf(typ), typ, nil
}

// ValueString renders (type, body) canonically for comparisons: structural type + hex body.
func ValueString(v zed.Value) string {
	if v.IsNull() {
		return DescrType(v.Type()) + " null"
	}
	return DescrType(v.Type()) + " " + HexAtom(v.Bytes())
}

// Features reports structural features of a column (type + values) that select code paths
// of the VNG writer / vector loader: used for evidence statistics and for narrow
// classification of failing inputs.
//
//	enum                 the type contains an enum
//	null-union           a null occurs at a union-typed position, or the union lies below
//	                     (through records / named / error only) a record position holding a null
//	error-under-null     an error-typed field lies below (through records / named types only)
//	                     a record position that holds at least one null
//	net, type, ...       primitive kinds present
func Features(t *TSpec, vals []*VVal) map[string]bool {
	f := map[string]bool{}
	features(t, vals, false, f)
	return f
}

func features(t *TSpec, vals []*VVal, underNullRecord bool, f map[string]bool) {
	anyNull := false
	var nonNull []*VVal
	for _, v := range vals {
		if v.Null {
			anyNull = true
		} else {
			nonNull = append(nonNull, v)
		}
	}
	switch t.Kind {
	case "prim":
		f[fmt.Sprintf("prim%d", t.ID)] = true
		if anyNull {
			f["null-prim"] = true
		}
	case "enum":
		f["enum"] = true
	case "named":
		f["named"] = true
		features(t.Elems[0], vals, underNullRecord, f)
	case "error":
		f["error"] = true
		if underNullRecord {
			f["error-under-null"] = true
		}
		features(t.Elems[0], vals, underNullRecord, f)
	case "record":
		f["record"] = true
		if anyNull {
			f["null-record"] = true
		}
		for i, fld := range t.Fields {
			var col []*VVal
			for _, v := range nonNull {
				if i < len(v.Items) {
					col = append(col, v.Items[i])
				}
			}
			features(fld.Type, col, underNullRecord || anyNull, f)
		}
	case "array", "set":
		f[t.Kind] = true
		if anyNull {
			f["null-"+t.Kind] = true
		}
		var col []*VVal
		for _, v := range nonNull {
			col = append(col, v.Items...)
		}
		features(t.Elems[0], col, false, f)
	case "map":
		f["map"] = true
		if anyNull {
			f["null-map"] = true
		}
		var ks, vs []*VVal
		for _, v := range nonNull {
			for i, it := range v.Items {
				if i%2 == 0 {
					ks = append(ks, it)
				} else {
					vs = append(vs, it)
				}
			}
		}
		features(t.Elems[0], ks, false, f)
		features(t.Elems[1], vs, false, f)
	case "union":
		f["union"] = true
		if anyNull || underNullRecord {
			f["null-union"] = true
		}
		cols := make([][]*VVal, len(t.Elems))
		for _, v := range nonNull {
			if len(v.Items) == 2 {
				tag := int(zed.DecodeInt(v.Items[0].Prim))
				if tag >= 0 && tag < len(cols) {
					cols[tag] = append(cols[tag], v.Items[1])
				}
			}
		}
		for i, e := range t.Elems {
			features(e, cols[i], false, f)
		}
	}
}
