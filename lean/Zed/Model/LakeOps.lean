/-
  L4 — lake model, part 4: pool state and the operations on it.
  Anchors: lake/writer.go (Writer: buffer to threshold, SortStable by ImportComparator, one
  object per buffer; SortedWriter), lake/data/writer.go (Min = first key, Max = last key,
  swapped for descending pools; Count), lake/branch.go (Load, Delete, DeleteWhere,
  CommitCompact, AddVectors, DeleteVectors, Revert, mergeInto/buildMergeObject, commit),
  runtime/exec/compact.go, lake/pool.go (Vacuum), lake/commits/store.go (Vacuumable),
  runtime/sam/op/meta/lister.go (sortObjects), slicer.go (stash/nextPartition),
  sequence.go (newObjectsScanner: merge of a partition's objects), deleter.go.

  Parameters (modelled, not verified): the value comparator `vle` (ImportComparator:
  pool key, nulls max, then value bytes), the key order `kle`, byte equality of keys `keq`.
  The byte positions at which `SortedWriter` (compaction) and the scatter/merge in front of
  the delete-where `Writer` cut their output into objects depend on compression and
  scheduling; the model takes the observed partition as an argument of the operation and
  *validates* it (right multiset, each part sorted, compaction cuts only between different
  keys).  For `load` the partition is predicted exactly.
-/
import Zed.Model.LakePatch
namespace Zed.Lake

structure Cfg (K V : Type) where
  /-- the pool key the comparator sees -/
  key : V → K
  /-- `val.DerefPath(sortKey.Key).MissingAsNull()`: the key `data.Writer` records as Min/Max
      and `SortedWriter` compares to decide where a new object may start -/
  mkey : V → K
  /-- `compareValues(a, b, nullsMax = true) ≤ 0` on keys (ascending) -/
  kle : K → K → Bool
  /-- `bytes.Equal(a.Bytes(), b.Bytes())` on keys -/
  keq : K → K → Bool
  /-- `ImportComparator(pool).Compare(a, b) ≤ 0` — already in pool order (asc or desc) -/
  vle : V → V → Bool
  desc : Bool
  thresh : Nat
  size : V → Nat

/-- Pool state.  `commits`: write-once commit objects; `files`: write-once data objects
    (id ↦ value sequence), removed only by vacuum; `branches`: name ↦ tip commit (0 = Nil). -/
structure State (K V : Type) where
  commits : List (Commit K) := []
  branches : List (Nat × Nat) := [(0, 0)]
  files : List (Nat × List V) := []
  nextObj : Nat := 1

variable {K V : Type}

def klt (cfg : Cfg K V) (a b : K) : Bool := cfg.kle a b && !cfg.kle b a

/-! ### writers -/

/-- `data.Writer`: metadata of an object holding the (sorted, non-empty) sequence `vals` -/
def mkObj (cfg : Cfg K V) (id : Nat) (vals : List V) : Option (Obj K) :=
  match vals.head?, vals.getLast? with
  | some f, some l =>
    let fk := cfg.mkey f
    let lk := cfg.mkey l
    some (if cfg.desc then { id := id, min := lk, max := fk, count := vals.length }
          else { id := id, min := fk, max := lk, count := vals.length })
  | _, _ => none

/-- `lake.Writer.Write`: buffers until the accumulated value bytes reach the threshold -/
def chunkGo (cfg : Cfg K V) : List V → List V → Nat → List (List V)
  | [], cur, _ => if cur.isEmpty then [] else [cur]
  | v :: vs, cur, n =>
    let n' := n + cfg.size v
    if n' ≥ cfg.thresh then (cur ++ [v]) :: chunkGo cfg vs [] 0
    else chunkGo cfg vs (cur ++ [v]) n'

def chunk (cfg : Cfg K V) (vals : List V) : List (List V) := chunkGo cfg vals [] 0

/-- `Comparator.SortStableReader` -/
def sortVals (cfg : Cfg K V) (vals : List V) : List V := vals.mergeSort cfg.vle

/-- `a` may precede `b` in pool-key order (asc or desc; keys only) -/
def kvle (cfg : Cfg K V) (a b : V) : Bool :=
  if cfg.desc then cfg.kle (cfg.key b) (cfg.key a) else cfg.kle (cfg.key a) (cfg.key b)

/-- in pool-key order (keys only: the order among equal keys is not fixed, see C14) -/
def isSorted (cfg : Cfg K V) : List V → Bool
  | [] => true
  | [_] => true
  | a :: b :: r => kvle cfg a b && isSorted cfg (b :: r)

/-- write one data object per part under fresh ids -/
def writeObjs (cfg : Cfg K V) (s : State K V) : List (List V) → State K V × List (Obj K)
  | [] => (s, [])
  | p :: ps =>
    match mkObj cfg s.nextObj p with
    | none => writeObjs cfg s ps
    | some o =>
      let s1 : State K V := { s with files := s.files ++ [(s.nextObj, p)], nextObj := s.nextObj + 1 }
      let (s2, os) := writeObjs cfg s1 ps
      (s2, o :: os)

/-! ### scan: lister, slicer, merge -/

/-- `lessFunc` of `meta.sortObjects` -/
def listerLess (cfg : Cfg K V) (a b : Obj K) : Bool :=
  let aFrom := if cfg.desc then a.max else a.min
  let aTo := if cfg.desc then a.min else a.max
  let bFrom := if cfg.desc then b.max else b.min
  let bTo := if cfg.desc then b.min else b.max
  let lt := fun x y => if cfg.desc then klt cfg y x else klt cfg x y
  if lt aFrom bFrom then true
  else if !cfg.keq aFrom bFrom then false
  else if cfg.keq aTo bTo then false
  else lt aTo bTo

/-- `sort.SliceStable(objects, lessFunc)`.  The input order is the Go map iteration order;
    the model uses insertion order. -/
def lister (cfg : Cfg K V) (objs : List (Obj K)) : List (Obj K) :=
  objs.mergeSort (fun a b => !listerLess cfg b a)

structure SlicerSt (K : Type) where
  group : List (Obj K) := []
  smin : Option K := none
  smax : Option K := none
  out : List (List (Obj K)) := []

/-- `Slicer.stash` -/
def slicerStep (cfg : Cfg K V) (st : SlicerSt K) (o : Obj K) : SlicerSt K :=
  let flush := match st.group, st.smin, st.smax with
    | _ :: _, some mn, some mx => klt cfg o.max mn || klt cfg mx o.min
    | _, _, _ => false
  let st : SlicerSt K := if flush then { group := [], smin := none, smax := none, out := st.out ++ [st.group] } else st
  let smin := match st.smin with
    | none => o.min
    | some m => if klt cfg o.min m then o.min else m
  let smax := match st.smax with
    | none => o.max
    | some m => if klt cfg m o.max then o.max else m
  { group := st.group ++ [o], smin := some smin, smax := some smax, out := st.out }

/-- `meta.Slicer`: partitions of mutually overlapping objects -/
def slicer (cfg : Cfg K V) (objs : List (Obj K)) : List (List (Obj K)) :=
  let st := objs.foldl (slicerStep cfg) {}
  if st.group.isEmpty then st.out else st.out ++ [st.group]

def fileOf (files : List (Nat × List V)) (id : Nat) : Option (List V) :=
  match files.find? (·.1 == id) with
  | some (_, p) => some p
  | none => none

def payloads (files : List (Nat × List V)) : List (Obj K) → Except Err (List (List V))
  | [] => .ok []
  | o :: os => match fileOf files o.id with
    | none => .error .missingFile
    | some p => match payloads files os with
      | .ok r => .ok (p :: r)
      | .error e => .error e

/-- `merge.New` over a partition's object scanners (modelled as a left-biased stable merge) -/
def mergeK (cfg : Cfg K V) (ls : List (List V)) : List V :=
  ls.foldr (fun l acc => List.merge l acc cfg.vle) []

def scanParts (cfg : Cfg K V) (files : List (Nat × List V)) : List (List (Obj K)) → Except Err (List V)
  | [] => .ok []
  | p :: ps => match payloads files p with
    | .error e => .error e
    | .ok ls => match scanParts cfg files ps with
      | .ok r => .ok (mergeK cfg ls ++ r)
      | .error e => .error e

/-- unfiltered scan of a set of objects: lister → slicer → per-partition merge -/
def scanObjs (cfg : Cfg K V) (files : List (Nat × List V)) (objs : List (Obj K)) : Except Err (List V) :=
  scanParts cfg files (slicer cfg (lister cfg objs))

/-! ### state helpers -/

namespace State

def tip (s : State K V) (b : Nat) : Option Nat :=
  match s.branches.find? (·.1 == b) with
  | some (_, t) => some t
  | none => none

def setTip (s : State K V) (b t : Nat) : State K V :=
  { s with branches := s.branches.map fun (n, x) => if n == b then (n, t) else (n, x) }

/-- `Branch.commit`: put the commit object, move the branch pointer -/
def commit (s : State K V) (b parent : Nat) (acts : List (Action K)) : State K V :=
  let s1 : State K V := { s with commits := s.commits ++ [{ parent := parent, acts := acts }] }
  s1.setTip b s1.commits.length

/-- `from pool@c`: the unfiltered scan of commit `c` -/
def query (cfg : Cfg K V) (s : State K V) (c : Nat) : Except Err (List V) :=
  match snapAt s.commits c with
  | .error e => .error e
  | .ok snap => scanObjs cfg s.files snap.objs

/-- the multiset (as a list) of values of commit `c`: payloads of the snapshot's objects -/
def contents (s : State K V) (c : Nat) : Except Err (List V) :=
  match snapAt s.commits c with
  | .error e => .error e
  | .ok snap => match payloads s.files snap.objs with
    | .error e => .error e
    | .ok ls => .ok ls.flatten

end State

/-! ### operations -/

variable [DecidableEq V]

/-- the observed partition `parts` of the value multiset `vals` into sorted non-empty objects -/
def validParts (cfg : Cfg K V) (vals : List V) (parts : List (List V)) : Bool :=
  parts.all (fun p => !p.isEmpty && isSorted cfg p) && parts.flatten.isPerm vals

/-- `SortedWriter.Write`: a new object is started only between values whose keys differ -/
def validCuts (cfg : Cfg K V) : List (List V) → Bool
  | [] => true
  | [_] => true
  | p :: q :: r =>
    (match p.getLast?, q.head? with
     | some a, some b => !cfg.keq (cfg.mkey a) (cfg.mkey b)
     | _, _ => false) && validCuts cfg (q :: r)

/-- `Branch.Load` -/
def load (cfg : Cfg K V) (s : State K V) (b : Nat) (vals : List V) (parts : List (List V)) :
    Except Err (State K V) :=
  match s.tip b with
  | none => .error .noBranch
  | some t =>
    if vals.isEmpty then .error .empty
    else if !(parts.isPerm ((chunk cfg vals).map (sortVals cfg))) then .error .badParts
    else
      let (s1, objs) := writeObjs cfg s parts
      .ok (s1.commit b t (objs.map .add))

/-- `uniqueIDs` (lake/branch.go): the listed ids without repetitions, first occurrences kept -/
def uniqueIds : List Nat → List Nat
  | [] => []
  | x :: xs => x :: (uniqueIds xs).filter (· != x)

/-- `Branch.Delete`: the id list is de-duplicated (fix f09056a37), every id is looked up in
    the tip snapshot, one `Delete` action is emitted per id. -/
def delete (s : State K V) (b : Nat) (ids : List Nat) : Except Err (State K V) :=
  let ids := uniqueIds ids
  match s.tip b with
  | none => .error .noBranch
  | some t => match snapAt s.commits t with
    | .error e => .error e
    | .ok snap =>
      if ids.all snap.hasObj then .ok (s.commit b t (ids.map .del)) else .error .notFound

/-- objects touched by a delete-where and the values they keep (`meta.Deleter`) -/
def deleterScan (files : List (Nat × List V)) (keep : V → Bool) :
    List (Obj K) → Except Err (List Nat × List V)
  | [] => .ok ([], [])
  | o :: os => match fileOf files o.id with
    | none => .error .missingFile
    | some p => match deleterScan files keep os with
      | .error e => .error e
      | .ok (ids, kept) =>
        let k := p.filter keep
        if k.length != o.count then .ok (o.id :: ids, k ++ kept) else .ok (ids, kept)

def addAll (p : Patch K) : List (Obj K) → Except Err (Patch K)
  | [] => .ok p
  | o :: os => match p.addObj o with
    | .ok p' => addAll p' os
    | .error e => .error e

def delAll (p : Patch K) : List Nat → Except Err (Patch K)
  | [] => .ok p
  | i :: is => match p.delObj i with
    | .ok p' => delAll p' is
    | .error e => .error e

def addVecAll (p : Patch K) : List Nat → Except Err (Patch K)
  | [] => .ok p
  | i :: is => match p.addVec i with
    | .ok p' => addVecAll p' is
    | .error e => .error e

/-- `Branch.DeleteWhere`; `keep` is the evaluator of `!P or missing(P)` -/
def deleteWhere (cfg : Cfg K V) (s : State K V) (b : Nat) (keep : V → Bool)
    (parts : List (List V)) : Except Err (State K V) :=
  match s.tip b with
  | none => .error .noBranch
  | some t => match snapAt s.commits t with
    | .error e => .error e
    | .ok snap => match deleterScan s.files keep (lister cfg snap.objs) with
      | .error e => .error e
      | .ok (ids, kept) =>
        if ids.isEmpty then .error .empty
        else if !validParts cfg kept parts then .error .badParts
        else
          let (s1, objs) := writeObjs cfg s parts
          match delAll (Patch.new (.snap snap)) ids with
          | .error e => .error e
          | .ok p1 => match addAll p1 objs with
            | .error e => .error e
            | .ok p2 => .ok (s1.commit b t p2.commitActions)

/-- `exec.Compact` + `Branch.CommitCompact` -/
def compact (cfg : Cfg K V) (s : State K V) (b : Nat) (ids : List Nat) (vec : Bool)
    (parts : List (List V)) : Except Err (State K V) :=
  if ids.length < 2 then .error .tooFew else
  match s.tip b with
  | none => .error .noBranch
  | some t => match snapAt s.commits t with
    | .error e => .error e
    | .ok snap =>
      if !ids.all snap.hasObj then .error .notFound else
      let src := snap.objs.filter (fun o => ids.contains o.id)
      match scanObjs cfg s.files src with
      | .error e => .error e
      | .ok merged =>
        if !(validParts cfg merged parts && isSorted cfg parts.flatten && validCuts cfg parts) then .error .badParts
        else
          let (s1, objs) := writeObjs cfg s parts
          match addAll (Patch.new (.snap snap)) objs with
          | .error e => .error e
          | .ok p1 => match addVecAll p1 (if vec then objs.map (·.id) else []) with
            | .error e => .error e
            | .ok p2 => match delAll p2 (src.map (·.id)) with
              | .error e => .error e
              | .ok p3 => .ok (s1.commit b t p3.commitActions)

/-- first error of a per-id check, in id order -/
def checkIds (f : Nat → Option Err) : List Nat → Option Err
  | [] => none
  | i :: is => match f i with
    | some e => some e
    | none => checkIds f is

/-- `Branch.AddVectors` on the de-duplicated id list (`data.CreateVector` reads the object's
    file first) -/
def addVectorsOf (s : State K V) (b : Nat) (ids : List Nat) : Except Err (State K V) :=
  match s.tip b with
  | none => .error .noBranch
  | some t =>
    if !ids.all (fun i => (fileOf s.files i).isSome) then .error .missingFile else
    match snapAt s.commits t with
    | .error e => .error e
    | .ok snap =>
      match checkIds (fun i => if !snap.hasObj i then some .notFound else if snap.hasVec i then some .exists_ else none) ids with
      | some e => .error e
      | none => .ok (s.commit b t (ids.map .addVec))

/-- `Branch.AddVectors`: the id list is de-duplicated first (fix 3863440f6) -/
def addVectors (s : State K V) (b : Nat) (ids : List Nat) : Except Err (State K V) :=
  addVectorsOf s b (uniqueIds ids)

/-- `Branch.DeleteVectors` on the de-duplicated id list -/
def deleteVectorsOf (s : State K V) (b : Nat) (ids : List Nat) : Except Err (State K V) :=
  match s.tip b with
  | none => .error .noBranch
  | some t => match snapAt s.commits t with
    | .error e => .error e
    | .ok snap =>
      match checkIds (fun i => if !snap.hasObj i then some .notFound else if !snap.hasVec i then some .noVector else none) ids with
      | some e => .error e
      | none => .ok (s.commit b t (ids.map .delVec))

/-- `Branch.DeleteVectors`: the id list is de-duplicated first (fix 3863440f6) -/
def deleteVectors (s : State K V) (b : Nat) (ids : List Nat) : Except Err (State K V) :=
  deleteVectorsOf s b (uniqueIds ids)

/-- ids added by `acts` -/
def addedIds : List (Action K) → List Nat
  | [] => []
  | .add o :: r => o.id :: addedIds r
  | _ :: r => addedIds r

/-- `Store.Vacuumable(leaf)`: objects added by strict ancestors of `leaf` that are not in
    `leaf`'s snapshot -/
def vacuumable (s : State K V) (leaf : Nat) : Except Err (List Nat) :=
  match snapAt s.commits leaf with
  | .error e => .error e
  | .ok snap =>
    let anc := (pathAt s.commits leaf).drop 1
    .ok ((addedIds (pathActions s.commits anc)).filter (fun i => !snap.hasObj i))

/-- `Pool.Vacuum(commit)` -/
def vacuum (s : State K V) (c : Nat) : Except Err (State K V) :=
  match vacuumable s c with
  | .error e => .error e
  | .ok ids => .ok { s with files := s.files.filter (fun f => !ids.contains f.1) }

/-- `lake.CreateBranch` -/
def createBranch (s : State K V) (name parent : Nat) : Except Err (State K V) :=
  if (s.tip name).isSome then .error .branchExists
  else if parent > s.commits.length then .error .noCommit
  else .ok { s with branches := s.branches ++ [(name, parent)] }

/-- `Branch.buildMergeObject` -/
def mergeActions (cs : List (Commit K)) (ctip ptip : Nat) : Except Err (List (Action K)) :=
  if ctip = 0 || ptip = 0 then .error .noAncestor else
  let baseID := commonAncestor (pathAt cs ptip) (pathAt cs ctip)
  if baseID = 0 then .error .noAncestor else
  match snapAt cs baseID with
  | .error e => .error e
  | .ok base => match patchOfPath cs base baseID ctip with
    | .error e => .error e
    | .ok childPatch => match patchOfPath cs base baseID ptip with
      | .error e => .error e
      | .ok parentPatch => match diff parentPatch childPatch with
        | .error e => .error e
        | .ok d => .ok d.commitActions

/-- `Branch.mergeInto` -/
def merge (s : State K V) (child parent : Nat) : Except Err (State K V) :=
  match s.tip child, s.tip parent with
  | some ctip, some ptip => match mergeActions s.commits ctip ptip with
    | .error e => .error e
    | .ok acts => .ok (s.commit parent ptip acts)
  | _, _ => .error .noBranch

/-- `Branch.Revert` -/
def revert (s : State K V) (b c : Nat) : Except Err (State K V) :=
  match s.tip b with
  | none => .error .noBranch
  | some t => match patchOfCommit s.commits c with
    | .error _ => .error .noCommit
    | .ok patch => match snapAt s.commits t with
      | .error e => .error e
      | .ok tipSnap => match patch.revert tipSnap with
        | .error e => .error e
        | .ok acts => .ok (s.commit b t acts)

/-- operations of a history -/
inductive Op (V : Type) where
  | load (b : Nat) (vals : List V) (parts : List (List V))
  | delete (b : Nat) (ids : List Nat)
  | deleteWhere (b : Nat) (keep : V → Bool) (parts : List (List V))
  | compact (b : Nat) (ids : List Nat) (vec : Bool) (parts : List (List V))
  | addVectors (b : Nat) (ids : List Nat)
  | deleteVectors (b : Nat) (ids : List Nat)
  | vacuum (c : Nat)
  | createBranch (name parent : Nat)
  | merge (child parent : Nat)
  | revert (b c : Nat)

def apply (cfg : Cfg K V) (s : State K V) : Op V → Except Err (State K V)
  | .load b vals parts => load cfg s b vals parts
  | .delete b ids => delete s b ids
  | .deleteWhere b keep parts => deleteWhere cfg s b keep parts
  | .compact b ids vec parts => compact cfg s b ids vec parts
  | .addVectors b ids => addVectors s b ids
  | .deleteVectors b ids => deleteVectors s b ids
  | .vacuum c => vacuum s c
  | .createBranch n p => createBranch s n p
  | .merge c p => merge s c p
  | .revert b c => revert s b c

/-- a failed operation leaves the state untouched -/
def step (cfg : Cfg K V) (s : State K V) (op : Op V) : State K V :=
  match apply cfg s op with
  | .ok s' => s'
  | .error _ => s

def run (cfg : Cfg K V) (s : State K V) (ops : List (Op V)) : State K V :=
  ops.foldl (step cfg) s

/-- `Branch.mergeInto` as it runs among other clients: the commit retry loop of `Branch.commit`.
    The child's tip `ctip` is read once, before the loop.  Every attempt looks the parent's tip
    up (`seen`), builds the merge object against it (`buildMergeObject`), writes it, and moves
    the branch pointer under the constraint "the tip is still `seen`".  `others` lists what the
    other clients commit between the tip lookup and the pointer update of the 1st, 2nd, …
    attempt.  If the constraint fails the object is removed again and the next attempt rebuilds
    it against the new tip; after `fuel` (= maxCommitRetries) attempts the merge gives up. -/
def mergeLoop (cfg : Cfg K V) : Nat → State K V → Nat → Nat → List (List (Op V)) → Except Err (State K V)
  | 0, _, _, _, _ => .error .conflict
  | fuel + 1, s, ctip, parent, others =>
    match s.tip parent with
    | none => .error .noBranch
    | some seen =>
      match mergeActions s.commits ctip seen with
      | .error e => .error e
      | .ok acts =>
        let s' := run cfg s (others.headD [])
        if s'.tip parent == some seen then .ok (s'.commit parent seen acts)
        else mergeLoop cfg fuel s' ctip parent others.tail

end Zed.Lake
