/-
  C06 — value ordering is a total preorder; sort and merge honour it at any memory limit.
  Property theorems only.  Tables come from Zed.Generated.C06 (regenerated from /repo/type.go,
  runtime/sam/expr/sort.go, eval.go on every check).
-/
import Zed.Model.Compare
namespace Zed.Props.C06
open Zed

/-- Obligation on the regenerated facts: the shape of `compareValues`/`compareNumbers` the model
    was written for (case order, special ids, the two tail statements, the fast-path body). -/
theorem compare_shape :
    Generated.C06.compareCases =
      ["zed.IsNumber(aid) && zed.IsNumber(bid)", "aid != bid", "aid == zed.IDBool",
       "aid == zed.IDBytes", "aid == zed.IDString", "aid == zed.IDIP", "aid == zed.IDType"] ∧
    Generated.C06.specialIds = [idBool, idBytes, idString, idIP, idType] ∧
    Generated.C06.compareTail =
      ["if innerType := zed.InnerType(a.Type()); innerType != nil",
       "return bytes.Compare(a.Bytes(), b.Bytes())"] ∧
    Generated.C06.compareNumbersCases =
      ["zed.IsFloat(aid)", "zed.IsFloat(bid)", "zed.IsSigned(aid)", "zed.IsSigned(bid)",
       "default: return cmp.Compare(a.Uint(), b.Uint())"] ∧
    Generated.C06.fastSigned = ["i64s[i] = val.Int()"] ∧
    Generated.C06.fastUnsigned =
      ["v := val.Uint()", "if v > math.MaxInt64 { v = math.MaxInt64 }", "i64s[i] = int64(v)"] := by
  decide

end Zed.Props.C06
