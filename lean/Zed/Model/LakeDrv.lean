/-
  Driver glue shared by C13 / C14 / C15: a whole operation history travels in one request
  line, the answer lists what the model predicts to be observable after every step.

  request  (Cxx run (cfg asc|desc <thresh> <seekstride>) (vals (<key> <metakey> <hexbytes> <ty> <keybytes>)…) (ops <op>…))
    key  : n | i<int> | s<hex>
    op   : (load b (toks…) (parts (toks…)…)) | (delete b (ids…)) | (delwhere b (deltoks…) (parts …))
         | (compact b (ids…) 0|1 (parts …)) | (addvec b (ids…)) | (delvec b (ids…))
         | (vacuum c) | (branch name c) | (merge child parent) | (revert b c)
  answer   ((step <res> (br (<name> <tip> <status> (objs (<id> <min> <max> <count> <vec> (seek (<min> <max> <off> <cnt>)…) <toks…>)…) (scan <toks…>))…)
                        (cm (<c> <status> (scan <toks…>))…)) …)
  Not used in any theorem.
-/
import Zed.Model.Sexp
import Zed.Model.LakeOps
import Zed.Model.LakeSeek
namespace Zed.Lake.Drv
open Zed Zed.Lake

inductive Key where
  | null | int (i : Int) | str (s : List UInt8)
  deriving DecidableEq, Repr, Inhabited

/-- bytewise lexicographic `≤` -/
def bytesLe : List UInt8 → List UInt8 → Bool
  | [], _ => true
  | _ :: _, [] => false
  | a :: as, b :: bs => if a < b then true else if b < a then false else bytesLe as bs

/-- `compareValues(a, b, nullsMax = true) ≤ 0` for int64 / string / null keys
    (int64 sorts before string: `CompareTypes` by type id) -/
def Key.le : Key → Key → Bool
  | _, .null => true
  | .null, _ => false
  | .int a, .int b => a ≤ b
  | .int _, .str _ => true
  | .str _, .int _ => false
  | .str a, .str b => bytesLe a b

structure Val where
  tok : Nat
  key : Key
  mkey : Key
  bytes : List UInt8
  ty : Nat
  kb : Nat := 0   -- len(key.Bytes()): what data.Writer adds to the seek-index trigger
  deriving DecidableEq, Repr, Inhabited

/-- `ImportComparator`: pool key (nulls max; operands swapped for desc), then the value bytes
    (same direction) -/
def valLe (desc : Bool) (a b : Val) : Bool :=
  let (x, y) := if desc then (b, a) else (a, b)
  if Key.le x.key y.key && !Key.le y.key x.key then true
  else if !Key.le x.key y.key then false
  else bytesLe x.bytes y.bytes

def mkCfg (desc : Bool) (thresh : Nat) : Cfg Key Val :=
  { key := (·.key), mkey := (·.mkey), kle := Key.le, keq := (· == ·), vle := valLe desc, desc := desc,
    thresh := thresh, size := (·.bytes.length) }

def keyOf (s : String) : Option Key :=
  if s == "n" then some .null
  else if s.startsWith "i" then (s.drop 1).toString.toInt?.map .int
  else if s.startsWith "s" then (Sexp.bytesOfHex (s.drop 1).toString).map .str
  else none

def keyStr : Key → String
  | .null => "n"
  | .int i => "i" ++ toString i
  | .str s => "s" ++ Sexp.hexOfBytes s

def nats : List Sexp → Option (List Nat)
  | [] => some []
  | .atom a :: r => do
    let n ← a.toNat?
    let rest ← nats r
    pure (n :: rest)
  | _ => none

def parseVals : List Sexp → Nat → Option (List Val)
  | [], _ => some []
  | .list [.atom k, .atom mk, .atom h, .atom t, .atom kb] :: r, i => do
    let key ← keyOf k
    let mkey ← keyOf mk
    let bytes ← Sexp.bytesOfHex h
    let ty ← t.toNat?
    let kb ← kb.toNat?
    let rest ← parseVals r (i + 1)
    pure ({ tok := i, key := key, mkey := mkey, bytes := bytes, ty := ty, kb := kb } :: rest)
  | _, _ => none

def toks (tbl : Array Val) (xs : List Sexp) : Option (List Val) := do
  let ns ← nats xs
  ns.mapM fun n => tbl[n]?

def parseParts (tbl : Array Val) : List Sexp → Option (List (List Val))
  | [] => some []
  | .list xs :: r => do
    let p ← toks tbl xs
    let rest ← parseParts tbl r
    pure (p :: rest)
  | _ => none

def parseOp (tbl : Array Val) : Sexp → Option (Op Val)
  | .list [.atom "load", .atom b, .list vs, .list (.atom "parts" :: ps)] => do
    pure (.load (← b.toNat?) (← toks tbl vs) (← parseParts tbl ps))
  | .list [.atom "delete", .atom b, .list ids] => do pure (.delete (← b.toNat?) (← nats ids))
  | .list [.atom "delwhere", .atom b, .list ds, .list (.atom "parts" :: ps)] => do
    let dels ← nats ds
    pure (.deleteWhere (← b.toNat?) (fun v => !dels.contains v.tok) (← parseParts tbl ps))
  | .list [.atom "compact", .atom b, .list ids, .atom vec, .list (.atom "parts" :: ps)] => do
    pure (.compact (← b.toNat?) (← nats ids) (vec == "1") (← parseParts tbl ps))
  | .list [.atom "addvec", .atom b, .list ids] => do pure (.addVectors (← b.toNat?) (← nats ids))
  | .list [.atom "delvec", .atom b, .list ids] => do pure (.deleteVectors (← b.toNat?) (← nats ids))
  | .list [.atom "vacuum", .atom c] => do pure (.vacuum (← c.toNat?))
  | .list [.atom "branch", .atom n, .atom c] => do pure (.createBranch (← n.toNat?) (← c.toNat?))
  | .list [.atom "merge", .atom c, .atom p] => do pure (.merge (← c.toNat?) (← p.toNat?))
  | .list [.atom "revert", .atom b, .atom c] => do pure (.revert (← b.toNat?) (← c.toNat?))
  | _ => none

def tokList (vs : List Val) : List Sexp := vs.map fun v => .atom (toString v.tok)

def statusOf {α} : Except Err α → String
  | .ok _ => "ok"
  | .error e => e.toStr

def seekOut (cfg : Cfg Key Val) (stride : Nat) (p : List Val) : Sexp :=
  .list (.atom "seek" :: (seekEntries cfg stride (·.kb) p).map fun e =>
    .list [.atom (keyStr e.min), .atom (keyStr e.max), .atom (toString e.valOff), .atom (toString e.valCnt)])

def objOut (cfg : Cfg Key Val) (stride : Nat) (s : State Key Val) (snap : Snap Key) (o : Obj Key) : Sexp :=
  .list ([.atom (toString o.id), .atom (keyStr o.min), .atom (keyStr o.max), .atom (toString o.count),
          .atom (if snap.hasVec o.id then "1" else "0"),
          (match fileOf s.files o.id with
           | some p => seekOut cfg stride p
           | none => .list [.atom "seek"])] ++
         (match fileOf s.files o.id with
          | some p => tokList p
          | none => [.atom "gone"]))

def scanOut (r : Except Err (List Val)) : Sexp :=
  match r with
  | .ok vs => .list (.atom "scan" :: tokList vs)
  | .error _ => .list [.atom "scan"]

/-- `semantic.analyzer`: a pool reference whose commit resolves to `ksuid.Nil` (a branch that
    has no commit yet) "defaults to the main branch". -/
def resolveTip (s : State Key Val) (t : Nat) : Nat :=
  if t = 0 then (s.tip 0).getD 0 else t

def branchOut (cfg : Cfg Key Val) (stride : Nat) (s : State Key Val) (b : Nat × Nat) : Sexp :=
  let rt := resolveTip s b.2
  match snapAt s.commits rt with
  | .error e => .list [.atom (toString b.1), .atom (toString b.2), .atom e.toStr, .list [.atom "objs"], .list [.atom "scan"]]
  | .ok snap =>
    let q := State.query cfg s rt
    .list [.atom (toString b.1), .atom (toString b.2), .atom (statusOf q),
           .list (.atom "objs" :: (lister cfg snap.objs).map (objOut cfg stride s snap)), scanOut q]

def commitOut (cfg : Cfg Key Val) (s : State Key Val) (c : Nat) : Sexp :=
  let q := State.query cfg s c
  .list [.atom (toString c), .atom (statusOf q), scanOut q]

def observe (cfg : Cfg Key Val) (stride : Nat) (s : State Key Val) (res : String) : Sexp :=
  .list [.atom "step", .atom res,
         .list (.atom "br" :: s.branches.map (branchOut cfg stride s)),
         .list (.atom "cm" :: (List.range s.commits.length).map (fun i => commitOut cfg s (i + 1)))]

def runOps (cfg : Cfg Key Val) (stride : Nat) : State Key Val → List (Op Val) → List Sexp
  | _, [] => []
  | s, op :: ops =>
    match apply cfg s op with
    | .ok s' => observe cfg stride s' "ok" :: runOps cfg stride s' ops
    | .error e => observe cfg stride s e.toStr :: runOps cfg stride s ops

def handle : List Sexp → String
  | [.atom "run", .list [.atom "cfg", .atom dir, .atom th, .atom st], .list (.atom "vals" :: vs), .list (.atom "ops" :: ops)] =>
    match (if dir == "asc" then some false else if dir == "desc" then some true else none), th.toNat?, st.toNat?, parseVals vs 0 with
    | some desc, some thresh, some stride, some vals =>
      let tbl := vals.toArray
      match ops.mapM (parseOp tbl) with
      | none => "bad-op"
      | some ops => toString (Sexp.list (runOps (mkCfg desc thresh) stride {} ops))
    | _, _, _, _ => "bad-op"
  | _ => "bad-op"

end Zed.Lake.Drv
