package main

// Structural shrinking of failing round-trip cases.

import (
	"encoding/hex"

	zed "github.com/brimdata/super"
)

func isNullType(t *TSpec) bool { return t.Kind == "prim" && t.ID == idNull }

func plainName(s string) bool {
	if s == "" {
		return false
	}
	for i, c := range s {
		if !(c >= 'a' && c <= 'z' || c == '_' || (i > 0 && c >= '0' && c <= '9')) {
			return false
		}
	}
	switch s {
	case "true", "false", "null", "error", "enum", "nan", "inf", "type":
		return false
	}
	return true
}

var simplePrims = func() map[int][]string {
	hx := func(b []byte) string { return hex.EncodeToString(b) }
	m := map[int][]string{}
	for _, id := range []int{idUint8, idUint16, idUint32, idUint64} {
		m[id] = []string{hx(zed.EncodeUint(0)), hx(zed.EncodeUint(1))}
	}
	for _, id := range []int{idInt8, idInt16, idInt32, idInt64, idDuration, idTime} {
		m[id] = []string{hx(zed.EncodeInt(0)), hx(zed.EncodeInt(1))}
	}
	m[idFloat16] = []string{hx(zed.EncodeFloat16(1)), hx(zed.EncodeFloat16(1.5))}
	m[idFloat32] = []string{hx(zed.EncodeFloat32(1)), hx(zed.EncodeFloat32(1.5))}
	m[idFloat64] = []string{hx(zed.EncodeFloat64(1)), hx(zed.EncodeFloat64(1.5))}
	m[idBool] = []string{hx(zed.EncodeBool(true))}
	m[idBytes] = []string{"", "00"}
	m[idString] = []string{"", "61"}
	m[idIP] = []string{"01020304"}
	m[idNet] = []string{"0a000000ff000000"}
	return m
}()

// shrinks returns smaller candidates for the value v of type t (same position: the type
// may change).
func shrinks(t *TSpec, v *VSpec) []tv {
	var out []tv
	add := func(t2 *TSpec, v2 *VSpec) { out = append(out, tv{t2, v2}) }
	switch t.Kind {
	case "named":
		// drop the name
		add(t.Elems[0], v)
		if !plainName(t.Name) || t.Name != "x" {
			t2 := *t
			t2.Name = "x"
			if t.Name != "x" {
				add(&t2, v)
			}
		}
		for _, c := range shrinks(t.Elems[0], v) {
			add(&TSpec{Kind: "named", Name: t.Name, Elems: []*TSpec{c.T}}, c.V)
		}
		return out
	case "error":
		add(t.Elems[0], v)
		for _, c := range shrinks(t.Elems[0], v) {
			add(&TSpec{Kind: "error", Elems: []*TSpec{c.T}}, c.V)
		}
		return out
	}
	if v.Null {
		// a null of a simpler type
		switch t.Kind {
		case "prim":
			if t.ID != idInt64 && t.ID != idNull {
				add(Prim(idInt64), v)
			}
		case "record":
			for i := range t.Fields {
				t2 := *t
				t2.Fields = append(append([]TField{}, t.Fields[:i]...), t.Fields[i+1:]...)
				add(&t2, v)
			}
			for i, f := range t.Fields {
				if !plainName(f.Name) {
					t2 := *t
					t2.Fields = append([]TField{}, t.Fields...)
					t2.Fields[i].Name = freshField(t, i)
					add(&t2, v)
				}
				if f.Type.Kind != "prim" || f.Type.ID != idInt64 {
					t2 := *t
					t2.Fields = append([]TField{}, t.Fields...)
					t2.Fields[i].Type = Prim(idInt64)
					add(&t2, v)
				}
			}
		case "array", "set", "map":
			for i, e := range t.Elems {
				if e.Kind != "prim" || e.ID != idInt64 {
					t2 := *t
					t2.Elems = append([]*TSpec{}, t.Elems...)
					t2.Elems[i] = Prim(idInt64)
					add(&t2, v)
				}
			}
			add(Prim(idInt64), v)
		case "union":
			if len(t.Elems) > 2 {
				for i := range t.Elems {
					t2 := *t
					t2.Elems = append(append([]*TSpec{}, t.Elems[:i]...), t.Elems[i+1:]...)
					add(&t2, v)
				}
			}
			add(Prim(idInt64), v)
		case "enum":
			add(Prim(idInt64), v)
		}
		return out
	}
	switch t.Kind {
	case "prim":
		if t.ID == idType {
			if v.T != nil && !(v.T.Kind == "prim" && v.T.ID == idInt64) {
				add(t, &VSpec{T: Prim(idInt64)})
				for _, c := range typeShrinks(v.T) {
					add(t, &VSpec{T: c})
				}
			}
			return out
		}
		for _, h := range simplePrims[t.ID] {
			if h != v.Hex {
				add(t, &VSpec{Hex: h})
			}
		}
		if t.ID == idString {
			raw, _ := hex.DecodeString(v.Hex)
			if len(raw) > 1 {
				// halves, on rune boundaries
				s := string(raw)
				rs := []rune(s)
				add(t, &VSpec{Hex: hex.EncodeToString([]byte(string(rs[:len(rs)/2])))})
				add(t, &VSpec{Hex: hex.EncodeToString([]byte(string(rs[len(rs)/2:])))})
			}
		}
	case "record":
		for i, f := range t.Fields {
			add(f.Type, v.Elems[i])
		}
		for i := range t.Fields {
			t2 := *t
			t2.Fields = append(append([]TField{}, t.Fields[:i]...), t.Fields[i+1:]...)
			v2 := *v
			v2.Elems = append(append([]*VSpec{}, v.Elems[:i]...), v.Elems[i+1:]...)
			add(&t2, &v2)
		}
		for i, f := range t.Fields {
			if !plainName(f.Name) {
				t2 := *t
				t2.Fields = append([]TField{}, t.Fields...)
				t2.Fields[i].Name = freshField(t, i)
				add(&t2, v)
			}
		}
		for i, f := range t.Fields {
			for _, c := range shrinks(f.Type, v.Elems[i]) {
				t2 := *t
				t2.Fields = append([]TField{}, t.Fields...)
				t2.Fields[i].Type = c.T
				v2 := *v
				v2.Elems = append([]*VSpec{}, v.Elems...)
				v2.Elems[i] = c.V
				add(&t2, &v2)
			}
		}
		add(t, &VSpec{Null: true})
	case "array", "set":
		et := t.Elems[0]
		for _, e := range v.Elems {
			add(et, e)
		}
		for i := range v.Elems {
			v2 := *v
			v2.Elems = append(append([]*VSpec{}, v.Elems[:i]...), v.Elems[i+1:]...)
			add(t, &v2)
		}
		if len(v.Elems) == 1 {
			for _, c := range shrinks(et, v.Elems[0]) {
				add(&TSpec{Kind: t.Kind, Elems: []*TSpec{c.T}}, &VSpec{Elems: []*VSpec{c.V}})
			}
		} else if len(v.Elems) == 0 {
			for _, c := range typeShrinks(et) {
				add(&TSpec{Kind: t.Kind, Elems: []*TSpec{c}}, v)
			}
		} else {
			// same-type shrinks of one element
			for i, e := range v.Elems {
				for _, c := range shrinks(et, e) {
					if c.T.Descr() == et.Descr() {
						v2 := *v
						v2.Elems = append([]*VSpec{}, v.Elems...)
						v2.Elems[i] = c.V
						add(t, &v2)
					}
				}
			}
			// drop unused union members
			if et.Kind == "union" && len(et.Elems) > 2 {
				used := map[int]bool{}
				for _, e := range v.Elems {
					if !e.Null {
						used[e.Tag] = true
					}
				}
				for m := range et.Elems {
					if used[m] {
						continue
					}
					et2 := &TSpec{Kind: "union", Elems: append(append([]*TSpec{}, et.Elems[:m]...), et.Elems[m+1:]...)}
					v2 := &VSpec{}
					for _, e := range v.Elems {
						e2 := *e
						if !e.Null && e.Tag > m {
							e2.Tag--
						}
						v2.Elems = append(v2.Elems, &e2)
					}
					add(&TSpec{Kind: t.Kind, Elems: []*TSpec{et2}}, v2)
				}
			}
		}
		add(t, &VSpec{Null: true})
		if t.Kind == "set" {
			add(&TSpec{Kind: "array", Elems: t.Elems}, v)
		}
	case "map":
		kt, vt := t.Elems[0], t.Elems[1]
		for i := 0; i+1 < len(v.Elems); i += 2 {
			add(kt, v.Elems[i])
			add(vt, v.Elems[i+1])
		}
		for i := 0; i+1 < len(v.Elems); i += 2 {
			v2 := *v
			v2.Elems = append(append([]*VSpec{}, v.Elems[:i]...), v.Elems[i+2:]...)
			add(t, &v2)
		}
		if len(v.Elems) == 2 {
			for _, c := range shrinks(kt, v.Elems[0]) {
				add(&TSpec{Kind: "map", Elems: []*TSpec{c.T, vt}}, &VSpec{Elems: []*VSpec{c.V, v.Elems[1]}})
			}
			for _, c := range shrinks(vt, v.Elems[1]) {
				add(&TSpec{Kind: "map", Elems: []*TSpec{kt, c.T}}, &VSpec{Elems: []*VSpec{v.Elems[0], c.V}})
			}
		} else if len(v.Elems) == 0 {
			for _, c := range typeShrinks(kt) {
				add(&TSpec{Kind: "map", Elems: []*TSpec{c, vt}}, v)
			}
			for _, c := range typeShrinks(vt) {
				add(&TSpec{Kind: "map", Elems: []*TSpec{kt, c}}, v)
			}
		} else {
			for i, e := range v.Elems {
				et := t.Elems[i%2]
				for _, c := range shrinks(et, e) {
					if c.T.Descr() == et.Descr() {
						v2 := *v
						v2.Elems = append([]*VSpec{}, v.Elems...)
						v2.Elems[i] = c.V
						add(t, &v2)
					}
				}
			}
		}
		add(t, &VSpec{Null: true})
	case "union":
		add(t.Elems[v.Tag], v.Elems[0])
		if len(t.Elems) > 2 {
			for m := range t.Elems {
				if m == v.Tag {
					continue
				}
				t2 := &TSpec{Kind: "union", Elems: append(append([]*TSpec{}, t.Elems[:m]...), t.Elems[m+1:]...)}
				v2 := *v
				if v.Tag > m {
					v2.Tag--
				}
				add(t2, &v2)
			}
		}
		for m := range t.Elems {
			if m == v.Tag {
				continue
			}
			for _, c := range typeShrinks(t.Elems[m]) {
				if t2 := replaceMember(t, m, c); t2 != nil {
					add(t2, v)
				}
			}
		}
		for _, c := range shrinks(t.Elems[v.Tag], v.Elems[0]) {
			if c.V.Null {
				continue
			}
			if t2 := replaceMember(t, v.Tag, c.T); t2 != nil {
				add(t2, &VSpec{Tag: v.Tag, Elems: []*VSpec{c.V}})
			}
		}
	case "enum":
		if len(t.Syms) > 1 {
			for m := range t.Syms {
				if m == v.Tag {
					continue
				}
				t2 := &TSpec{Kind: "enum", Syms: append(append([]string{}, t.Syms[:m]...), t.Syms[m+1:]...)}
				v2 := *v
				if v.Tag > m {
					v2.Tag--
				}
				add(t2, &v2)
			}
		}
		for m, s := range t.Syms {
			if !plainName(s) {
				t2 := &TSpec{Kind: "enum", Syms: append([]string{}, t.Syms...)}
				t2.Syms[m] = freshSym(t, m)
				add(t2, v)
			}
		}
	}
	return out
}

func replaceMember(t *TSpec, m int, c *TSpec) *TSpec {
	d := c.Descr()
	for i, e := range t.Elems {
		if i != m && e.Descr() == d {
			return nil
		}
	}
	t2 := &TSpec{Kind: "union", Elems: append([]*TSpec{}, t.Elems...)}
	t2.Elems[m] = c
	return t2
}

func freshField(t *TSpec, i int) string {
	for _, cand := range []string{"a", "b", "c", "d", "e", "f"} {
		ok := true
		for j, f := range t.Fields {
			if j != i && f.Name == cand {
				ok = false
			}
		}
		if ok {
			return cand
		}
	}
	return "g"
}

func freshSym(t *TSpec, i int) string {
	for _, cand := range []string{"a", "b", "c", "d", "e", "f"} {
		ok := true
		for j, s := range t.Syms {
			if j != i && s == cand {
				ok = false
			}
		}
		if ok {
			return cand
		}
	}
	return "g"
}

// typeShrinks: smaller types (no value attached).
func typeShrinks(t *TSpec) []*TSpec {
	var out []*TSpec
	if !(t.Kind == "prim") {
		out = append(out, Prim(idInt64))
	} else if t.ID != idInt64 {
		out = append(out, Prim(idInt64))
		return out
	} else {
		return nil
	}
	switch t.Kind {
	case "record":
		for _, f := range t.Fields {
			out = append(out, f.Type)
		}
		for i := range t.Fields {
			t2 := *t
			t2.Fields = append(append([]TField{}, t.Fields[:i]...), t.Fields[i+1:]...)
			out = append(out, &t2)
		}
		for i, f := range t.Fields {
			if !plainName(f.Name) {
				t2 := *t
				t2.Fields = append([]TField{}, t.Fields...)
				t2.Fields[i].Name = freshField(t, i)
				out = append(out, &t2)
			}
			for _, c := range typeShrinks(f.Type) {
				t2 := *t
				t2.Fields = append([]TField{}, t.Fields...)
				t2.Fields[i].Type = c
				out = append(out, &t2)
			}
		}
	case "enum":
		if len(t.Syms) > 1 {
			for m := range t.Syms {
				out = append(out, &TSpec{Kind: "enum", Syms: append(append([]string{}, t.Syms[:m]...), t.Syms[m+1:]...)})
			}
		}
		for m, s := range t.Syms {
			if !plainName(s) {
				t2 := &TSpec{Kind: "enum", Syms: append([]string{}, t.Syms...)}
				t2.Syms[m] = freshSym(t, m)
				out = append(out, t2)
			}
		}
	case "named":
		out = append(out, t.Elems[0])
		if t.Name != "x" {
			out = append(out, &TSpec{Kind: "named", Name: "x", Elems: t.Elems})
		}
		for _, c := range typeShrinks(t.Elems[0]) {
			out = append(out, &TSpec{Kind: "named", Name: t.Name, Elems: []*TSpec{c}})
		}
	case "union":
		for _, e := range t.Elems {
			out = append(out, e)
		}
		if len(t.Elems) > 2 {
			for m := range t.Elems {
				out = append(out, &TSpec{Kind: "union", Elems: append(append([]*TSpec{}, t.Elems[:m]...), t.Elems[m+1:]...)})
			}
		}
		for m, e := range t.Elems {
			for _, c := range typeShrinks(e) {
				if t2 := replaceMember(t, m, c); t2 != nil {
					out = append(out, t2)
				}
			}
		}
	default: // array set map error
		for _, e := range t.Elems {
			out = append(out, e)
		}
		for i, e := range t.Elems {
			for _, c := range typeShrinks(e) {
				t2 := &TSpec{Kind: t.Kind, Elems: append([]*TSpec{}, t.Elems...)}
				t2.Elems[i] = c
				out = append(out, t2)
			}
		}
	}
	return out
}

// shrinkCase minimises cs while fails(cs) keeps returning the same failure class.
func shrinkCase(cs *rtCase, class string, fails func(*rtCase) string, budget int) *rtCase {
	cur := cloneCase(cs)
	try := func(c *rtCase) bool {
		if budget <= 0 {
			return false
		}
		budget--
		return fails(c) == class
	}
	for progress := true; progress && budget > 0; {
		progress = false
		// fewer values
		for i := 0; len(cur.Vals) > 1 && i < len(cur.Vals); i++ {
			c := cloneCase(cur)
			c.Vals = append(c.Vals[:i], c.Vals[i+1:]...)
			if try(c) {
				cur, progress = c, true
				i--
			}
		}
		// simpler configuration
		if cur.Pretty != 0 {
			c := cloneCase(cur)
			c.Pretty = 0
			if try(c) {
				cur, progress = c, true
			}
		}
		if cur.Persist != "" {
			c := cloneCase(cur)
			c.Persist = ""
			if try(c) {
				cur, progress = c, true
			}
		}
		if cur.Mode != "value" {
			c := cloneCase(cur)
			c.Mode = "value"
			if try(c) {
				cur, progress = c, true
			}
		}
		// smaller values
		for i := range cur.Vals {
		again:
			for _, cand := range shrinks(cur.Vals[i].T, cur.Vals[i].V) {
				c := cloneCase(cur)
				c.Vals[i] = tv{cloneT(cand.T), cloneV(cand.V)}
				if try(c) {
					cur, progress = c, true
					goto again
				}
				if budget <= 0 {
					break
				}
			}
		}
	}
	return cur
}
