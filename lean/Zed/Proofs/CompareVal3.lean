import Zed.Proofs.CompareVal2
namespace Zed
open Zed.Ord

theorem cmpNum_refl : (a : Num) → cmpNum a a = .eq
  | .float x => by simp [cmpNum, Num.toF, cmpF_refl]
  | .int i => by simp [cmpNum]
  | .uint u => by simp [cmpNum]

theorem cmpNum_swap : (a b : Num) → cmpNum b a = (cmpNum a b).swap
  | .float x, .float y => by simp only [cmpNum, Num.toF]; exact cmpF_swap x y
  | .float x, .int i => by simp only [cmpNum]; exact cmpF_swap _ _
  | .float x, .uint u => by simp only [cmpNum]; exact cmpF_swap _ _
  | .int i, .float y => by simp only [cmpNum]; exact cmpF_swap _ _
  | .uint u, .float y => by simp only [cmpNum]; exact cmpF_swap _ _
  | .int i, .int j => by simp only [cmpNum]; exact compare_int_swap i j
  | .uint u, .uint v => by simp only [cmpNum]; exact compare_nat_swap u v
  | .int i, .uint u => by
    simp only [cmpNum]; split
    · rfl
    · exact compare_nat_swap _ _
  | .uint u, .int i => by
    simp only [cmpNum]; split
    · rfl
    · exact compare_nat_swap _ _

theorem cmpLeaf_refl (a : Val) : cmpLeaf a a = .eq := by
  cases a <;> simp [cmpLeaf, cmpBytes_refl, cmpTy_refl, Val.payload, Ordering.then]

theorem cmpLeaf_swap (a b : Val) : cmpLeaf b a = (cmpLeaf a b).swap := by
  cases a <;> cases b <;> simp only [cmpLeaf, Val.payload] <;>
    first
    | exact cmpBytes_swap _ _
    | exact cmpTy_swap _ _
    | (rename_i x _ y; cases x <;> cases y <;> decide)
    | (rw [Ordering.swap_then, compare_nat_swap, cmpBytes_swap])

mutual
theorem cmpVal_refl (nm : Bool) : (a : Val) → cmpVal nm a a = .eq
  | .seq t xs => by
    rw [cmpVal_classified]; simp only [if_true, within]
    cases vk (.seq t xs) with
    | nullv => rfl
    | num => simp [Val.num?]
    | ty u => simp only [cmpSameOf]; exact cmpVals_refl nm xs
  | .null t => by rw [cmpVal_classified]; simp [within, vk, Val.isNull]
  | .num t n => by
    rw [cmpVal_classified]; simp only [if_true, within]
    cases vk (.num t n) <;> simp [Val.num?, cmpNum_refl, cmpSameOf, cmpLeaf_refl]
  | .bool t n => by
    rw [cmpVal_classified]; simp only [if_true, within]
    cases vk (.bool t n) <;> simp [Val.num?, cmpSameOf, cmpLeaf_refl]
  | .bytes t n => by
    rw [cmpVal_classified]; simp only [if_true, within]
    cases vk (.bytes t n) <;> simp [Val.num?, cmpSameOf, cmpLeaf_refl]
  | .string t n => by
    rw [cmpVal_classified]; simp only [if_true, within]
    cases vk (.string t n) <;> simp [Val.num?, cmpSameOf, cmpLeaf_refl]
  | .ip t n => by
    rw [cmpVal_classified]; simp only [if_true, within]
    cases vk (.ip t n) <;> simp [Val.num?, cmpSameOf, cmpLeaf_refl]
  | .typ t n => by
    rw [cmpVal_classified]; simp only [if_true, within]
    cases vk (.typ t n) <;> simp [Val.num?, cmpSameOf, cmpLeaf_refl]
  | .raw t n => by
    rw [cmpVal_classified]; simp only [if_true, within]
    cases vk (.raw t n) <;> simp [Val.num?, cmpSameOf, cmpLeaf_refl]
theorem cmpVals_refl (nm : Bool) : (xs : Vals) → cmpVals nm xs xs = .eq
  | .nil => rfl
  | .cons x xs => by simp [cmpVals, cmpVal_refl nm x, cmpVals_refl nm xs, Ordering.then]
end

theorem cmpVK_swap' (nm : Bool) (a b : Val) : cmpVK nm (vk b) (vk a) = (cmpVK nm (vk a) (vk b)).swap := by
  have hu : ∀ v : Val, ∀ u, vk v = .ty u → u.isNamed = false := by
    intro v u h; rw [← (vk_ty_of h).2.2]; exact Ty.under_not_named _
  cases ha : vk a <;> cases hb : vk b <;> cases nm <;> simp only [cmpVK, if_true, if_false, Bool.false_eq_true] <;>
    first
    | rfl
    | exact cmpS_swap _ _ (hu a _ ha) (hu b _ hb)

/-- swap on the part compared inside one class, given swap on the elements -/
theorem cmpVal_swap_of (nm : Bool) (a b : Val)
    (hseq : ∀ t xs t' ys, a = .seq t xs → b = .seq t' ys → cmpVals nm ys xs = (cmpVals nm xs ys).swap) :
    cmpVal nm b a = (cmpVal nm a b).swap := by
  rw [cmpVal_classified nm a b, cmpVal_classified nm b a]
  by_cases h : vk a = vk b
  · rw [if_pos h, if_pos h.symm]
    unfold within
    rw [← h]
    cases hk : vk a with
    | nullv => rfl
    | num =>
      simp only
      cases a.num? <;> cases b.num? <;> simp only [Ordering.swap] <;> exact cmpNum_swap _ _
    | ty u =>
      simp only
      cases a <;> cases b <;> simp only [cmpSameOf] <;>
        first
        | exact cmpLeaf_swap _ _
        | exact hseq _ _ _ _ rfl rfl
  · rw [if_neg h, if_neg (Ne.symm h)]; exact cmpVK_swap' nm a b

mutual
theorem cmpVal_swap (nm : Bool) : (a b : Val) → cmpVal nm b a = (cmpVal nm a b).swap
  | .seq t xs, b => cmpVal_swap_of nm _ b (fun _ _ _ ys ha hb => by cases ha; subst hb; exact cmpVals_swap nm xs ys)
  | .null t, b => cmpVal_swap_of nm _ b (fun _ _ _ _ ha => by cases ha)
  | .num t n, b => cmpVal_swap_of nm _ b (fun _ _ _ _ ha => by cases ha)
  | .bool t n, b => cmpVal_swap_of nm _ b (fun _ _ _ _ ha => by cases ha)
  | .bytes t n, b => cmpVal_swap_of nm _ b (fun _ _ _ _ ha => by cases ha)
  | .string t n, b => cmpVal_swap_of nm _ b (fun _ _ _ _ ha => by cases ha)
  | .ip t n, b => cmpVal_swap_of nm _ b (fun _ _ _ _ ha => by cases ha)
  | .typ t n, b => cmpVal_swap_of nm _ b (fun _ _ _ _ ha => by cases ha)
  | .raw t n, b => cmpVal_swap_of nm _ b (fun _ _ _ _ ha => by cases ha)
theorem cmpVals_swap (nm : Bool) : (xs ys : Vals) → cmpVals nm ys xs = (cmpVals nm xs ys).swap
  | .nil, .nil => rfl
  | .nil, .cons _ _ => rfl
  | .cons _ _, .nil => rfl
  | .cons x xs, .cons y ys => by
    simp only [cmpVals, Ordering.swap_then]; rw [cmpVal_swap nm x y, cmpVals_swap nm xs ys]
end

end Zed
